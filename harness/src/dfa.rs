//! Export of the deterministic automaton of a compiled regular expression, restricted to an
//! alphabet of code points, as a transition table that TLC can read.

use regex_automata::dfa::{dense, Automaton, StartKind};
use regex_automata::util::start;
use regex_automata::Anchored;
use serde::Serialize;
use std::collections::HashMap;

/// Transition table over `Sigma`. State indices are 1-based (TLC sequences), state 1 is initial.
#[derive(Clone, Debug, Serialize, PartialEq, Eq, Hash)]
pub struct Table {
    pub acc: Vec<bool>,
    pub delta: Vec<Vec<usize>>,
}

impl Table {
    pub fn accepts(&self, path: &[u32], sigma: &[u32]) -> Option<bool> {
        let mut q = 0usize;
        for c in path {
            let k = sigma.iter().position(|x| x == c)?;
            q = self.delta[q][k] - 1;
        }
        Some(self.acc[q])
    }
}

pub const MAX_STATES: usize = 400;

/// Builds the anchored dense DFA of `pattern` (which is of the form `^...$`) and explores the
/// states reachable through the UTF-8 encodings of the characters in `sigma`.
pub fn table_of(pattern: &str, sigma: &[u32], max_states: usize) -> Result<Table, String> {
    let dfa = dense::Builder::new()
        .configure(
            dense::Config::new()
                .start_kind(StartKind::Anchored)
                .minimize(false)
                .dfa_size_limit(Some(1 << 22))
                .determinize_size_limit(Some(1 << 22)),
        )
        .build(pattern)
        .map_err(|e| format!("dfa build: {}", e))?;
    let start = dfa
        .start_state(&start::Config::new().anchored(Anchored::Yes))
        .map_err(|e| format!("dfa start: {}", e))?;
    let mut states = vec![start];
    let mut index = HashMap::new();
    index.insert(start, 0usize);
    let mut delta: Vec<Vec<usize>> = vec![];
    let mut acc = vec![];
    let mut i = 0;
    while i < states.len() {
        let s = states[i];
        acc.push(dfa.is_match_state(dfa.next_eoi_state(s)));
        let mut row = Vec::with_capacity(sigma.len());
        for &c in sigma {
            let c = char::from_u32(c).ok_or("bad code point in sigma")?;
            let mut t = s;
            let mut buf = [0u8; 4];
            for b in c.encode_utf8(&mut buf).bytes() {
                t = dfa.next_state(t, b);
            }
            let n = states.len();
            let j = *index.entry(t).or_insert(n);
            if j == n {
                states.push(t);
                if states.len() > max_states {
                    return Err("big".into());
                }
            }
            row.push(j + 1);
        }
        delta.push(row);
        i += 1;
    }
    Ok(minimise(Table { acc, delta }))
}

/// Moore minimisation over the restricted alphabet (keeps the tables that TLC reads small and
/// makes equal languages have equal tables up to state numbering, which we canonicalise by BFS).
fn minimise(t: Table) -> Table {
    let n = t.acc.len();
    let k = t.delta.first().map_or(0, |r| r.len());
    let mut class: Vec<usize> = t.acc.iter().map(|&a| a as usize).collect();
    loop {
        let mut sig: HashMap<(usize, Vec<usize>), usize> = HashMap::new();
        let mut next = vec![0usize; n];
        for s in 0..n {
            let key = (class[s], (0..k).map(|a| class[t.delta[s][a] - 1]).collect::<Vec<_>>());
            let m = sig.len();
            next[s] = *sig.entry(key).or_insert(m);
        }
        let stable = sig.len() == class.iter().collect::<std::collections::HashSet<_>>().len();
        class = next;
        if stable {
            break;
        }
    }
    // renumber classes by BFS from the class of state 0
    let mut order: Vec<usize> = vec![];
    let mut pos: HashMap<usize, usize> = HashMap::new();
    let mut rep: HashMap<usize, usize> = HashMap::new();
    for s in 0..n {
        rep.entry(class[s]).or_insert(s);
    }
    let mut queue = std::collections::VecDeque::new();
    pos.insert(class[0], 0);
    order.push(class[0]);
    queue.push_back(class[0]);
    while let Some(c) = queue.pop_front() {
        let s = rep[&c];
        for a in 0..k {
            let d = class[t.delta[s][a] - 1];
            if !pos.contains_key(&d) {
                pos.insert(d, order.len());
                order.push(d);
                queue.push_back(d);
            }
        }
    }
    let mut acc = vec![];
    let mut delta = vec![];
    for &c in &order {
        let s = rep[&c];
        acc.push(t.acc[s]);
        delta.push((0..k).map(|a| pos[&class[t.delta[s][a] - 1]] + 1).collect());
    }
    Table { acc, delta }
}
