//! `wv total`: C05. Runs every public operation on every input in a child process, so that panics,
//! aborts, stack overflows and non-termination are all only data.
//!
//! The parent feeds one case at a time to a worker (`wv total-worker`) and waits for one answer
//! line; a worker that dies or does not answer in time is replaced and the case is recorded as
//! `abort` / `timeout`.

use serde_json::{json, Value};
use std::io::{BufRead, BufReader, Write};
use std::process::{Child, ChildStdin, Command, Stdio};
use std::sync::mpsc;
use std::time::Duration;
use wax::{CandidatePath, Glob, Program};

use crate::observe::{classify, cps, from_cps, guarded, install_panic_hook, queries};

const PATHS: [&str; 9] = ["", "a", "/", "a/b", "/a/b/", "a//b", "\n", "é/金", "a/../b"];

/// All public operations on the result of `Glob::new(e)`; returns the first panic site, if any,
/// together with the name of the operation.
fn exercise(e: &str) -> Value {
    let mut rec = json!({"outcome": "ok", "ekind": "", "panic": "", "qpanic": "", "op": "", "espans": [], "slice_ok": true});
    let built = guarded(|| Glob::new(e));
    let glob = match built {
        Err(site) => {
            rec["outcome"] = json!("panic");
            rec["panic"] = json!(site);
            rec["op"] = json!("Glob::new");
            return rec;
        },
        Ok(Err(error)) => {
            let (outcome, kind) = classify(&error);
            rec["outcome"] = json!(outcome);
            rec["ekind"] = json!(kind);
            // the documented way of using error locations
            let r = guarded(|| {
                let mut spans = vec![];
                for location in error.locations() {
                    let (start, n) = location.span();
                    spans.push(vec![start, n]);
                    let _ = location.to_string();
                }
                let _ = error.to_string();
                spans
            });
            match r {
                Ok(spans) => {
                    let sliced = guarded(|| {
                        for s in &spans {
                            let _fragment = &e[s[0]..][..s[1]];
                        }
                    });
                    if sliced.is_err() {
                        rec["slice_ok"] = json!(false);
                    }
                    rec["espans"] = json!(spans);
                },
                Err(site) => {
                    rec["qpanic"] = json!(site);
                    rec["op"] = json!("BuildError::locations");
                },
            }
            return rec;
        },
        Ok(Ok(glob)) => glob,
    };
    macro_rules! op {
        ($name:expr, $body:expr) => {
            if rec["qpanic"] == "" {
                if let Err(site) = guarded(|| $body) {
                    rec["qpanic"] = json!(site);
                    rec["op"] = json!($name);
                }
            }
        };
    }
    op!("queries", {
        let _ = queries(&glob);
        let _ = glob.has_semantic_literals();
        let _ = glob.is_empty();
        let _ = glob.captures().count();
        let _ = glob.to_string();
    });
    op!("is_match/matched", {
        for p in PATHS.iter().copied().chain(std::iter::once(e)) {
            let _ = glob.is_match(p);
            let c = CandidatePath::from(p);
            if let Some(m) = glob.matched(&c) {
                for i in 0..4 {
                    let _ = m.get(i);
                }
                let _ = m.complete();
                let _ = m.to_owned().into_owned().get(1);
            }
        }
    });
    op!("clone/into_owned", {
        let g = glob.clone().into_owned();
        let _ = g.is_match("a");
    });
    op!("partition", {
        let (_, post) = glob.clone().partition();
        if let Some(post) = post {
            let _ = post.to_string();
            let _ = post.clone().partition();
            let _ = post.is_match("a");
        }
        let _ = glob.clone().partition_or_empty();
        let _ = glob.clone().partition_or_tree();
    });
    op!("any", {
        if let Ok(any) = wax::any([glob.clone()]) {
            let _ = queries(&any);
            let _ = any.is_match("a");
        }
        if let Ok(any) = wax::any([e, "a/**"]) {
            let _ = queries(&any);
        }
        let _ = wax::any([wax::any([e]), wax::any([glob.clone()])]).map(|any| any.is_match("a/b"));
    });
    op!("any of no patterns", {
        // a combinator of nothing, queried, matched and passed on to further combinators (alone, next to this
        // input, nested twice)
        let nothing = || wax::any(Vec::<&str>::new());
        if let Ok(any) = nothing() {
            let _ = queries(&any);
            let _ = any.is_match("");
            let _ = any.is_match("a");
        }
        let _ = wax::any([nothing()]).map(|any| any.is_match("a"));
        let _ = wax::any([nothing(), wax::any([glob.clone()])]).map(|any| (queries(&any), any.is_match("a/b")));
        let _ = wax::any([wax::any([nothing()]), wax::any([e])]).map(|any| any.is_match(""));
        let _ = wax::any([""]).map(|any| (queries(&any), any.is_match("")));
    });
    op!("not/walk programs", {
        let _ = wax::walk::verif_negation_patterns(e);
        let _ = glob.verif_walk_component_patterns();
    });
    op!("FromStr/TryFrom", {
        let _ = e.parse::<Glob<'static>>().map(|g| g.is_match("a"));
        let _ = Glob::try_from(e).map(|g| g.is_match("a"));
    });
    op!("escape", {
        let escaped = wax::escape(e).into_owned();
        let _ = Glob::new(&escaped).map(|g| g.is_match(e));
        let _ = e.chars().filter(|c| wax::is_meta_character(*c) || wax::is_contextual_meta_character(*c)).count();
    });
    rec
}

pub fn worker() {
    install_panic_hook();
    let stdin = std::io::stdin();
    let out = std::io::stdout();
    for line in stdin.lock().lines() {
        let line = line.unwrap();
        let case: Value = serde_json::from_str(&line).unwrap();
        let e = from_cps(&case["e"]);
        // run on a big stack so that moderate nesting is not reported as an overflow of the
        // (small) default main-thread stack of this harness
        let e2 = e.clone();
        let rec = std::thread::Builder::new()
            .stack_size(8 << 20)
            .spawn(move || exercise(&e2))
            .unwrap()
            .join()
            .unwrap_or_else(|_| json!({"outcome": "panic", "panic": "worker thread", "qpanic": "", "op": "?", "ekind": "", "espans": [], "slice_ok": true}));
        let mut out = out.lock();
        writeln!(out, "{}", rec).unwrap();
        out.flush().unwrap();
    }
}

struct Worker {
    child: Child,
    stdin: ChildStdin,
    rx: mpsc::Receiver<Option<String>>,
}

fn spawn_worker() -> Worker {
    let exe = std::env::current_exe().unwrap();
    let mut child = Command::new(exe)
        .arg("total-worker")
        .stdin(Stdio::piped())
        .stdout(Stdio::piped())
        .stderr(Stdio::null())
        .spawn()
        .expect("cannot spawn worker");
    let stdin = child.stdin.take().unwrap();
    let stdout = child.stdout.take().unwrap();
    let (tx, rx) = mpsc::channel();
    std::thread::spawn(move || {
        let mut reader = BufReader::new(stdout);
        loop {
            let mut line = String::new();
            match reader.read_line(&mut line) {
                Ok(0) | Err(_) => {
                    let _ = tx.send(None);
                    break;
                },
                Ok(_) => {
                    if tx.send(Some(line)).is_err() {
                        break;
                    }
                },
            }
        }
    });
    Worker { child, stdin, rx }
}

pub fn run(args: &[String]) {
    let mut timeout_s = 20u64;
    let mut threads = 8usize;
    let mut i = 0;
    while i < args.len() {
        match args[i].as_str() {
            "--timeout" => {
                timeout_s = args[i + 1].parse().unwrap();
                i += 1;
            },
            "--threads" => {
                threads = args[i + 1].parse().unwrap();
                i += 1;
            },
            x => panic!("unknown argument {}", x),
        }
        i += 1;
    }
    let stdin = std::io::stdin();
    let cases: Vec<Value> = stdin
        .lock()
        .lines()
        .map(|l| l.unwrap())
        .filter(|l| !l.trim().is_empty())
        .map(|l| serde_json::from_str(&l).expect("bad case"))
        .collect();
    let chunk = ((cases.len() + threads - 1) / threads.max(1)).max(1);
    let mut results: Vec<Vec<String>> = vec![];
    std::thread::scope(|scope| {
        let handles: Vec<_> = cases
            .chunks(chunk)
            .map(|part| {
                scope.spawn(move || {
                    let mut w = spawn_worker();
                    let mut out = vec![];
                    for case in part {
                        let line = json!({"e": case["e"]}).to_string();
                        let sent = writeln!(w.stdin, "{}", line).and_then(|_| w.stdin.flush());
                        let answer = if sent.is_err() {
                            Err("abort")
                        }
                        else {
                            match w.rx.recv_timeout(Duration::from_secs(timeout_s)) {
                                Ok(Some(line)) => Ok(line),
                                Ok(None) => Err("abort"),
                                Err(_) => Err("timeout"),
                            }
                        };
                        let mut rec = match answer {
                            Ok(line) => serde_json::from_str::<Value>(&line).unwrap_or(json!({"outcome": "abort"})),
                            Err(kind) => {
                                let _ = w.child.kill();
                                let status = w.child.wait().ok();
                                let signal = {
                                    use std::os::unix::process::ExitStatusExt;
                                    status.and_then(|s| s.signal()).unwrap_or(0)
                                };
                                w = spawn_worker();
                                json!({"outcome": kind, "ekind": "", "panic": format!("signal {}", signal), "qpanic": "", "op": "?", "espans": [], "slice_ok": true})
                            },
                        };
                        rec["id"] = case["id"].clone();
                        rec["kind"] = json!("glob");
                        rec["fam"] = case["fam"].clone();
                        // long inputs are not echoed (TLC reads this file)
                        let e = case["e"].as_array().map_or(0, |a| a.len());
                        rec["e"] = if e <= 64 { case["e"].clone() } else { json!(cps("<long>")) };
                        rec["elen"] = json!(e);
                        if let Some(d) = case.get("desc") {
                            rec["desc"] = d.clone();
                        }
                        out.push(rec.to_string());
                    }
                    let _ = w.child.kill();
                    let _ = w.child.wait();
                    out
                })
            })
            .collect();
        for h in handles {
            results.push(h.join().expect("driver thread died"));
        }
    });
    let out = std::io::stdout();
    let mut out = std::io::BufWriter::new(out.lock());
    for part in results {
        for line in part {
            writeln!(out, "{}", line).unwrap();
        }
    }
}
