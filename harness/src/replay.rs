//! `wv replay`: runs the real `is_match` / `matched` on concrete paths chosen by TLC (witnesses of
//! product states) and records verdicts and captures, borrowed and owned.

use serde_json::{json, Value};
use std::io::{BufRead, Write};
use wax::{CandidatePath, Glob, Program};

use crate::observe::{cps, from_cps, guarded, install_panic_hook};

fn cap_json(c: Option<&str>) -> Value {
    match c {
        Some(s) => json!({"some": true, "s": cps(s)}),
        None => json!({"some": false, "s": []}),
    }
}

fn replay_program<'t, P: Program<'t>>(p: &P, ncap: usize, paths: &[String]) -> Value {
    Value::Array(
        paths
            .iter()
            .map(|path| {
                let r = guarded(|| {
                    let m = p.is_match(path.as_str());
                    // the same path given as a Path and as an OsStr
                    let conv_eq = p.is_match(std::path::Path::new(path.as_str())) == m
                        && p.is_match(std::ffi::OsStr::new(path.as_str())) == m;
                    let candidate = CandidatePath::from(path.as_str());
                    let matched = p.matched(&candidate);
                    let has = matched.is_some();
                    let mut caps = vec![];
                    let mut owned_eq = true;
                    if let Some(matched) = matched {
                        let to_owned = matched.to_owned();
                        for i in 0..=(ncap + 1) {
                            caps.push(cap_json(matched.get(i)));
                            if matched.get(i) != to_owned.get(i) {
                                owned_eq = false;
                            }
                        }
                        if matched.complete() != to_owned.complete()
                            || matched.to_candidate_path().as_ref() != path.as_str()
                        {
                            owned_eq = false;
                        }
                        let into_owned = matched.into_owned();
                        for i in 0..=(ncap + 1) {
                            if into_owned.get(i) != to_owned.get(i) {
                                owned_eq = false;
                            }
                        }
                    }
                    json!({"p": cps(path), "m": m, "has": has, "caps": caps, "owned_eq": owned_eq, "conv_eq": conv_eq, "panic": ""})
                });
                r.unwrap_or_else(|site| json!({"p": cps(path), "m": false, "has": false, "caps": [], "owned_eq": true, "conv_eq": true, "panic": site}))
            })
            .collect(),
    )
}

pub fn run(_args: &[String]) {
    install_panic_hook();
    let stdin = std::io::stdin();
    let out = std::io::stdout();
    let mut out = std::io::BufWriter::new(out.lock());
    for line in stdin.lock().lines() {
        let line = line.unwrap();
        if line.trim().is_empty() {
            continue;
        }
        let case: Value = serde_json::from_str(&line).expect("bad witness record");
        let paths: Vec<String> = case["paths"].as_array().map(|a| a.iter().map(from_cps).collect()).unwrap_or_default();
        let mut rec = json!({"id": case["id"], "built": false, "rs": []});
        if case.get("members").is_some() {
            let members: Vec<String> = case["members"].as_array().map(|a| a.iter().map(from_cps).collect()).unwrap_or_default();
            if let Ok(Ok(any)) = guarded(|| wax::any(members.iter().map(|m| m.as_str()))) {
                rec["built"] = json!(true);
                rec["rs"] = replay_program(&any, 0, &paths);
            }
        }
        else {
            let e = from_cps(&case["e"]);
            if let Ok(Ok(glob)) = guarded(|| Glob::new(&e)) {
                rec["built"] = json!(true);
                let ncap = glob.captures().count();
                rec["ncap"] = json!(ncap);
                rec["rs"] = replay_program(&glob, ncap, &paths);
            }
        }
        writeln!(out, "{}", rec).unwrap();
    }
}
