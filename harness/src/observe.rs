//! `wv observe`: runs the real wax API on every case read from stdin and records what it saw.
//!
//! One JSON object per case, in input order. Characters are code points; state indices in
//! automaton tables are 1-based. A panic in the code under test is data, not a failure of the
//! harness: it is caught and recorded with its source location.

use serde_json::{json, Value};
use std::cell::RefCell;
use std::io::{BufRead, Write};
use std::panic::{self, AssertUnwindSafe};
use std::path::{Component, Path};
use wax::query::{Boundedness, Variance, When};
use wax::{BuildError, Glob, Program};

use crate::dfa::{table_of, Table};

thread_local! {
    static LAST_PANIC: RefCell<Option<String>> = const { RefCell::new(None) };
}

pub fn install_panic_hook() {
    panic::set_hook(Box::new(|info| {
        let loc = info
            .location()
            .map(|l| {
                // the tree under test is /repo unless VERIF_REPO names a scratch copy (seeded-change testing)
                let root = std::env::var("VERIF_REPO").map(|r| format!("{}/", r.trim_end_matches('/'))).unwrap_or_else(|_| "/repo/".into());
                format!("{}:{}", l.file().rsplit(root.as_str()).next().unwrap_or(l.file()), l.line())
            })
            .unwrap_or_else(|| "?".into());
        let msg = if let Some(s) = info.payload().downcast_ref::<&str>() {
            s.to_string()
        }
        else if let Some(s) = info.payload().downcast_ref::<String>() {
            s.clone()
        }
        else {
            "?".into()
        };
        LAST_PANIC.with(|p| *p.borrow_mut() = Some(format!("{} {}", loc, msg)));
    }));
}

pub fn guarded<T>(f: impl FnOnce() -> T) -> Result<T, String> {
    match panic::catch_unwind(AssertUnwindSafe(f)) {
        Ok(v) => Ok(v),
        Err(_) => Err(LAST_PANIC.with(|p| p.borrow_mut().take()).unwrap_or_else(|| "?".into())),
    }
}

pub fn cps(s: &str) -> Vec<u32> {
    s.chars().map(u32::from).collect()
}

pub fn from_cps(v: &Value) -> String {
    v.as_array()
        .map(|a| {
            a.iter()
                .filter_map(|x| x.as_u64())
                .filter_map(|x| char::from_u32(x as u32))
                .collect()
        })
        .unwrap_or_default()
}

pub fn when(w: When) -> &'static str {
    match w {
        When::Always => "always",
        When::Sometimes => "sometimes",
        When::Never => "never",
    }
}

fn table_json(pattern: &str, sigma: &[u32], max_states: usize) -> Value {
    match table_of(pattern, sigma, max_states) {
        Ok(Table { acc, delta }) => json!({"ok": true, "acc": acc, "delta": delta}),
        Err(e) => json!({"ok": false, "acc": [], "delta": [], "why": e}),
    }
}

fn no_table() -> Value {
    json!({"ok": false, "acc": [], "delta": [], "why": "absent"})
}

pub fn classify(error: &BuildError) -> (&'static str, String) {
    let text = error.to_string();
    if text.starts_with("failed to parse") {
        ("parse", String::new())
    }
    else if let Some(rest) = text.strip_prefix("malformed glob expression: ") {
        let kind = if rest.starts_with("uncertain or overlapping roots") {
            "rooted_sub_glob"
        }
        else if rest.starts_with("singular tree") {
            "singular_tree"
        }
        else if rest.starts_with("singular zero-or-more") {
            "singular_zom"
        }
        else if rest.starts_with("adjacent component boundaries") {
            "adjacent_boundary"
        }
        else if rest.starts_with("adjacent zero-or-more") {
            "adjacent_zom"
        }
        else if rest.starts_with("oversized invariant") {
            "oversized_invariant"
        }
        else if rest.starts_with("incompatible repetition bounds") {
            "incompatible_bounds"
        }
        else {
            "other"
        };
        ("rule", kind.into())
    }
    else if text.starts_with("failed to compile") {
        ("compile", if text.contains("oversized program") { "oversized_program".into() } else { "other".into() })
    }
    else {
        ("other", text)
    }
}

pub fn queries<'t, P: Program<'t>>(p: &P) -> Value {
    let (dlo, dhi): (i64, i64) = match p.depth() {
        Variance::Invariant(n) => (n as i64, n as i64),
        Variance::Variant(Boundedness::Unbounded) => (0, -1),
        Variance::Variant(Boundedness::Bounded(range)) => (
            match range.lower() {
                Boundedness::Unbounded => 0,
                Boundedness::Bounded(n) => n.get() as i64,
            },
            match range.upper() {
                Boundedness::Unbounded => -1,
                Boundedness::Bounded(n) => n.get() as i64,
            },
        ),
    };
    let text = p.text();
    let (has_text, text) = match text {
        Variance::Invariant(t) => (true, cps(&t)),
        Variance::Variant(()) => (false, vec![]),
    };
    json!({
        "dlo": dlo, "dhi": dhi, "has_text": has_text, "text": text,
        "root": when(p.has_root()), "exh": when(p.is_exhaustive()),
    })
}

fn comps_json(path: &Path) -> Value {
    Value::Array(
        path.components()
            .map(|c| match c {
                Component::RootDir => json!({"k": "root", "s": []}),
                Component::CurDir => json!({"k": "cur", "s": []}),
                Component::ParentDir => json!({"k": "parent", "s": []}),
                Component::Normal(s) => json!({"k": "normal", "s": cps(&s.to_string_lossy())}),
                Component::Prefix(_) => json!({"k": "prefix", "s": []}),
            })
            .collect(),
    )
}

fn caps_json(glob: &Glob<'_>) -> Value {
    Value::Array(
        glob.captures()
            .map(|c| json!([c.index(), c.span().0, c.span().1]))
            .collect(),
    )
}

/// Repetition bounds are exported as decimal strings (they may exceed what TLC can represent);
/// here they become integers: more than six digits -> 999999 (BIG), no upper bound -> 1000000 (INF).
fn normalise_tokens(tok: &mut Value) {
    fn bound(v: &Value) -> i64 {
        match v {
            Value::Null => 1_000_000,
            Value::String(s) => {
                if s.len() > 6 {
                    999_999
                }
                else {
                    s.parse().unwrap_or(999_999)
                }
            },
            _ => 999_999,
        }
    }
    if let Some(obj) = tok.as_object_mut() {
        if obj.get("k").and_then(Value::as_str) == Some("rep") {
            let lo = bound(obj.get("lo").unwrap_or(&Value::Null));
            let hi = bound(obj.get("hi").unwrap_or(&Value::Null));
            obj.insert("lo".into(), json!(lo));
            obj.insert("hi".into(), json!(hi));
        }
        if let Some(ts) = obj.get_mut("ts").and_then(Value::as_array_mut) {
            for t in ts {
                normalise_tokens(t);
            }
        }
    }
}

pub struct Want {
    /// keep only globs that report is_exhaustive() == Always (the others are dropped from the output)
    pub only_exhaustive: bool,
    pub dfa: bool,
    pub walk: bool,
    pub neg: bool,
    pub part: bool,
    pub tok: bool,
    /// record the visits of the rule checker's branch phase (hook)
    pub rules: bool,
}

pub fn observe_glob(id: u64, e: &str, sigma: &[u32], want: &Want, max_states: usize) -> Value {
    observe_glob_by(id, e, "new", sigma, want, max_states)
}

/// `route`: how the glob under observation comes into being - `new` (Glob::new), `own` (Glob::new, then
/// into_owned) or `parsed` (str::parse)
pub fn observe_glob_by(id: u64, e: &str, route: &str, sigma: &[u32], want: &Want, max_states: usize) -> Value {
    let mut rec = json!({"id": id, "kind": "glob", "e": cps(e), "elen": e.len(),
        "outcome": "ok", "ekind": "", "panic": "", "espans": [], "qpanic": ""});
    if want.rules {
        wax::verif::install_rule_sink();
    }
    let built = guarded(|| match route {
        "own" => Glob::new(e).map(Glob::into_owned),
        "parsed" => e.parse::<Glob<'static>>(),
        _ => Glob::new(e),
    });
    if want.rules {
        let span = |s: Option<(usize, usize)>| s.map_or(json!([-1, -1]), |(a, n)| json!([a, n]));
        rec["rtrace"] = wax::verif::take_rule_visits()
            .iter()
            .map(|v| json!({"k": v.kind.to_string(), "s": [v.span.0, v.span.1], "l": span(v.left), "r": span(v.right)}))
            .collect();
    }
    let glob = match built {
        Err(site) => {
            rec["outcome"] = json!("panic");
            rec["panic"] = json!(site);
            return rec;
        },
        Ok(Err(error)) => {
            let (outcome, kind) = classify(&error);
            rec["outcome"] = json!(outcome);
            rec["ekind"] = json!(kind);
            match guarded(|| error.locations().map(|l| l.span()).collect::<Vec<_>>()) {
                Ok(spans) => {
                    rec["espans"] = json!(spans.iter().map(|s| vec![s.0, s.1]).collect::<Vec<_>>());
                },
                Err(site) => rec["qpanic"] = json!(site),
            }
            return rec;
        },
        Ok(Ok(glob)) => glob,
    };
    let q = guarded(|| {
        let mut q = queries(&glob);
        q["sem"] = json!(glob.has_semantic_literals());
        q["empty"] = json!(glob.is_empty());
        q["ncap"] = json!(glob.captures().count());
        q["caps"] = caps_json(&glob);
        q["display"] = json!(cps(&glob.to_string()));
        q
    });
    match q {
        Ok(q) => rec["q"] = q,
        Err(site) => {
            rec["qpanic"] = json!(site);
            return rec;
        },
    }
    if want.only_exhaustive && rec["q"]["exh"] != "always" {
        return json!({"drop": true});
    }
    if want.tok {
        let mut tok: Value = serde_json::from_str(&glob.verif_tokens()).unwrap_or(json!({"k": "bad"}));
        normalise_tokens(&mut tok);
        rec["tok"] = tok;
    }
    if want.dfa {
        rec["dfa"] = table_json(glob.verif_pattern(), sigma, max_states);
    }
    if want.walk {
        match guarded(|| glob.verif_walk_component_patterns()) {
            Ok(patterns) => {
                rec["walk"] = Value::Array(
                    patterns.iter().map(|p| table_json(p, sigma, max_states)).collect(),
                );
            },
            Err(site) => rec["qpanic"] = json!(site),
        }
    }
    if want.neg {
        match guarded(|| wax::walk::verif_negation_patterns(e)) {
            Ok(Ok((exh, non))) => {
                rec["neg"] = json!({
                    "exh": exh.as_deref().map_or_else(no_table, |p| table_json(p, sigma, max_states)),
                    "non": non.as_deref().map_or_else(no_table, |p| table_json(p, sigma, max_states)),
                });
            },
            Ok(Err(error)) => rec["neg"] = json!({"err": error.to_string(), "exh": no_table(), "non": no_table()}),
            Err(site) => rec["qpanic"] = json!(site),
        }
    }
    if want.part {
        let r = guarded(|| {
            let (prefix, post) = glob.clone().partition();
            let mut part = json!({
                "prefix": cps(&prefix.to_string_lossy()),
                "comps": comps_json(&prefix),
                "has_post": post.is_some(),
                "post": [], "post_root": "never", "post_ncap": 0, "post_caps": [],
                "post_dfa": no_table(), "re_prefix": [], "re_has_post": false, "re_post": [],
                "rebuild": "none", "rebuild_dfa": no_table(), "rebuild_ncap": 0, "rebuild_caps": [],
            });
            // partition_or_empty / partition_or_tree: the same prefix; the postfix, or the empty glob / the tree glob
            // (Glob::empty(), Glob::tree()) when there is none
            let (poe_prefix, poe) = glob.clone().partition_or_empty();
            let (pot_prefix, pot) = glob.clone().partition_or_tree();
            part["poe_prefix"] = json!(cps(&poe_prefix.to_string_lossy()));
            part["poe"] = json!(cps(&poe.to_string()));
            part["poe_dfa"] = table_json(poe.verif_pattern(), sigma, max_states);
            part["pot_prefix"] = json!(cps(&pot_prefix.to_string_lossy()));
            part["pot"] = json!(cps(&pot.to_string()));
            part["pot_dfa"] = table_json(pot.verif_pattern(), sigma, max_states);
            part["empty_dfa"] = table_json(Glob::empty().verif_pattern(), sigma, max_states);
            part["tree_dfa"] = table_json(Glob::tree().verif_pattern(), sigma, max_states);
            // the same partition of a glob that OWNS its expression text (into_owned, FromStr)
            let mut variants = vec![("own", Some(glob.clone().into_owned()))];
            variants.push(("par", e.parse::<Glob<'static>>().ok()));
            for (tag, g) in variants {
                let (ok, pre, has, txt, caps) = match g {
                    Some(g) => {
                        let (pre, post) = g.partition();
                        let caps = post.as_ref().map_or(json!([]), caps_json);
                        (true, cps(&pre.to_string_lossy()), post.is_some(), post.map_or_else(Vec::new, |p| cps(&p.to_string())), caps)
                    },
                    None => (false, vec![], false, vec![], json!([])),
                };
                // (the capture spans of the postfix of an owning glob index ITS expression text)
                part[format!("{}_post_caps", tag)] = caps;
                part[format!("{}_ok", tag)] = json!(ok);
                part[format!("{}_prefix", tag)] = json!(pre);
                part[format!("{}_has_post", tag)] = json!(has);
                part[format!("{}_post", tag)] = json!(txt);
            }
            if let Some(post) = post {
                let text = post.to_string();
                part["post"] = json!(cps(&text));
                part["post_root"] = json!(when(post.has_root()));
                part["post_ncap"] = json!(post.captures().count());
                part["post_caps"] = caps_json(&post);
                part["post_dfa"] = table_json(post.verif_pattern(), sigma, max_states);
                let (re_prefix, re_post) = post.clone().partition();
                part["re_prefix"] = json!(cps(&re_prefix.to_string_lossy()));
                part["re_has_post"] = json!(re_post.is_some());
                if let Some(re_post) = re_post {
                    part["re_post"] = json!(cps(&re_post.to_string()));
                }
                match Glob::new(&text) {
                    Ok(rebuilt) => {
                        part["rebuild"] = json!("ok");
                        part["rebuild_dfa"] = table_json(rebuilt.verif_pattern(), sigma, max_states);
                        part["rebuild_ncap"] = json!(rebuilt.captures().count());
                        part["rebuild_caps"] = caps_json(&rebuilt);
                    },
                    Err(_) => part["rebuild"] = json!("err"),
                }
            }
            part
        });
        match r {
            Ok(part) => rec["part"] = part,
            Err(site) => rec["qpanic"] = json!(site),
        }
    }
    rec
}

/// `any` of several member expressions, given as text, as compiled globs, or as nested
/// combinators (`any([any([m1]), any([m2, ...])])`).
pub fn observe_any(id: u64, members: &[String], mode: &str, sigma: &[u32], max_states: usize) -> Value {
    let mut rec = json!({"id": id, "kind": "any", "mode": mode,
        "members": members.iter().map(|m| cps(m)).collect::<Vec<_>>(),
        "outcome": "ok", "ekind": "", "panic": "", "qpanic": ""});
    let built = guarded(|| -> Result<wax::Any<'_>, BuildError> {
        match mode {
            "text" => wax::any(members.iter().map(|m| m.as_str())),
            "compiled" => {
                let globs = members.iter().map(|m| Glob::new(m)).collect::<Result<Vec<_>, _>>()?;
                wax::any(globs)
            },
            _ => {
                let (head, tail) = members.split_at(1.min(members.len()));
                let a = wax::any(head.iter().map(|m| m.as_str()));
                let b = wax::any(tail.iter().map(|m| Glob::new(m)).collect::<Result<Vec<_>, _>>()?);
                wax::any([a, b])
            },
        }
    });
    match built {
        Err(site) => {
            rec["outcome"] = json!("panic");
            rec["panic"] = json!(site);
        },
        Ok(Err(error)) => {
            let (outcome, kind) = classify(&error);
            rec["outcome"] = json!(outcome);
            rec["ekind"] = json!(kind);
        },
        Ok(Ok(any)) => {
            match guarded(|| queries(&any)) {
                Ok(q) => rec["q"] = q,
                Err(site) => rec["qpanic"] = json!(site),
            }
            rec["dfa"] = table_json(any.verif_pattern(), sigma, max_states);
        },
    }
    rec
}

/// C18: `escape(s)`, the glob built from it, and `is_meta_character` of every character of `s`.
pub fn observe_escape(id: u64, s: &str, sigma: &[u32], max_states: usize) -> Value {
    let mut rec = json!({"id": id, "kind": "escape", "s": cps(s), "outcome": "ok", "panic": "", "qpanic": "", "ekind": ""});
    let r = guarded(|| {
        let escaped = wax::escape(s).into_owned();
        let meta: Vec<bool> = s.chars().map(wax::is_meta_character).collect();
        let ctx: Vec<bool> = s.chars().map(wax::is_contextual_meta_character).collect();
        (escaped, meta, ctx)
    });
    let escaped = match r {
        Ok((escaped, meta, ctx)) => {
            rec["escaped"] = json!(cps(&escaped));
            rec["meta"] = json!(meta);
            rec["ctx"] = json!(ctx);
            escaped
        },
        Err(site) => {
            rec["outcome"] = json!("panic");
            rec["panic"] = json!(site);
            return rec;
        },
    };
    rec["e"] = json!(cps(&escaped));
    match guarded(|| Glob::new(&escaped)) {
        Err(site) => {
            rec["outcome"] = json!("panic");
            rec["panic"] = json!(site);
        },
        Ok(Err(error)) => {
            let (outcome, kind) = classify(&error);
            rec["outcome"] = json!(outcome);
            rec["ekind"] = json!(kind);
        },
        Ok(Ok(glob)) => {
            match guarded(|| queries(&glob)) {
                Ok(q) => rec["q"] = q,
                Err(site) => rec["qpanic"] = json!(site),
            }
            rec["is_match_s"] = json!(glob.is_match(s));
            rec["dfa"] = table_json(glob.verif_pattern(), sigma, max_states);
        },
    }
    rec
}

pub fn parse_sigma(arg: &str) -> Vec<u32> {
    serde_json::from_str::<Vec<u32>>(arg).expect("--sigma must be a JSON array of code points")
}

pub fn run(args: &[String]) {
    let mut sigma: Vec<u32> = vec![97, 98, 47];
    let mut want = Want { only_exhaustive: false, dfa: false, walk: false, neg: false, part: false, tok: false, rules: false };
    let mut max_states = crate::dfa::MAX_STATES;
    let mut threads = 8usize;
    let mut i = 0;
    while i < args.len() {
        match args[i].as_str() {
            "--sigma" => {
                sigma = parse_sigma(&args[i + 1]);
                i += 1;
            },
            "--want" => {
                for w in args[i + 1].split(',') {
                    match w {
                        "always" => want.only_exhaustive = true,
                        "dfa" => want.dfa = true,
                        "walk" => want.walk = true,
                        "neg" => want.neg = true,
                        "part" => want.part = true,
                        "tok" => want.tok = true,
                        "rules" => want.rules = true,
                        "" => {},
                        _ => panic!("unknown --want {}", w),
                    }
                }
                i += 1;
            },
            "--max-states" => {
                max_states = args[i + 1].parse().unwrap();
                i += 1;
            },
            "--threads" => {
                threads = args[i + 1].parse().unwrap();
                i += 1;
            },
            x => panic!("unknown argument {}", x),
        }
        i += 1;
    }
    install_panic_hook();
    let stdin = std::io::stdin();
    let cases: Vec<Value> = stdin
        .lock()
        .lines()
        .map(|l| l.unwrap())
        .filter(|l| !l.trim().is_empty())
        .map(|l| serde_json::from_str(&l).expect("bad case record"))
        .collect();
    let n = cases.len();
    let chunk = (n + threads - 1) / threads.max(1);
    let mut results: Vec<Vec<String>> = vec![];
    std::thread::scope(|scope| {
        let mut handles = vec![];
        for part in cases.chunks(chunk.max(1)) {
            let sigma = &sigma;
            let want = &want;
            handles.push(
                std::thread::Builder::new()
                    .stack_size(64 << 20)
                    .spawn_scoped(scope, move || {
                        part.iter()
                            .map(|case| {
                                let id = case["id"].as_u64().unwrap_or(0);
                                let own_sigma: Option<Vec<u32>> = case.get("sigma").and_then(|v| {
                                    v.as_array().map(|a| a.iter().filter_map(|x| x.as_u64()).map(|x| x as u32).collect())
                                });
                                let sigma: &[u32] = own_sigma.as_deref().unwrap_or(sigma);
                                let rec = match case["kind"].as_str().unwrap_or("glob") {
                                    "escape" => observe_escape(id, &from_cps(&case["s"]), sigma, max_states),
                                    "any" => {
                                        let members: Vec<String> = case["members"]
                                            .as_array()
                                            .map(|a| a.iter().map(from_cps).collect())
                                            .unwrap_or_default();
                                        observe_any(id, &members, case["mode"].as_str().unwrap_or("text"), sigma, max_states)
                                    },
                                    _ => observe_glob_by(id, &from_cps(&case["e"]), case["mode"].as_str().unwrap_or("new"), sigma, want, max_states),
                                };
                                let mut rec = rec;
                                if rec.get("drop").is_some() || (want.only_exhaustive && rec["outcome"] != "ok") {
                                    return String::new();
                                }
                                // carry through any generator annotations
                                if let Some(obj) = case.as_object() {
                                    for (k, v) in obj {
                                        if rec.get(k).is_none() {
                                            rec[k] = v.clone();
                                        }
                                    }
                                }
                                rec.to_string()
                            })
                            .collect::<Vec<_>>()
                    })
                    .unwrap(),
            );
        }
        for h in handles {
            results.push(h.join().expect("observer thread died"));
        }
    });
    let out = std::io::stdout();
    let mut out = std::io::BufWriter::new(out.lock());
    for part in results {
        for line in part {
            if !line.is_empty() {
                writeln!(out, "{}", line).unwrap();
            }
        }
    }
}
