//! `wv lifecycle`: C19. Re-expresses / re-owns a pattern along a route of conversions and logs the
//! projected abstract value after every step (the linearisation point of a sequential library is
//! the return of the call). `spec/Lifecycle.tla` validates the traces.

use serde_json::{json, Value};
use std::io::{BufRead, Write};
use wax::{Any, CandidatePath, Glob, Program};

use crate::dfa::table_of;
use crate::observe::{cps, from_cps, guarded, install_panic_hook, queries};

fn cap_json(c: Option<&str>) -> Value {
    match c {
        Some(s) => json!({"some": true, "s": cps(s)}),
        None => json!({"some": false, "s": []}),
    }
}

fn table(pattern: &str, sigma: &[u32]) -> Value {
    match table_of(pattern, sigma, 400) {
        Ok(t) => json!({"ok": true, "acc": t.acc, "delta": t.delta}),
        Err(_) => json!({"ok": false, "acc": [], "delta": []}),
    }
}

/// `last`: the highest capture index to log (for a glob one past its last capturing token, for a
/// combinator 0: a combinator only exposes the complete text of a match).
fn matches<'t, P: Program<'t>>(p: &P, last: usize, paths: &[String]) -> (Value, bool) {
    let mut owned_ok = true;
    let v = paths
        .iter()
        .map(|path| {
            let candidate = CandidatePath::from(path.as_str());
            let m = p.is_match(path.as_str());
            match p.matched(&candidate) {
                Some(matched) => {
                    let owned = matched.to_owned();
                    let caps: Vec<Value> = (0..=last).map(|i| cap_json(matched.get(i))).collect();
                    for i in 0..=last {
                        if matched.get(i) != owned.get(i) {
                            owned_ok = false;
                        }
                    }
                    let into = matched.into_owned();
                    for i in 0..=last {
                        if into.get(i) != owned.get(i) {
                            owned_ok = false;
                        }
                    }
                    json!({"m": m, "has": true, "caps": caps})
                },
                None => json!({"m": m, "has": false, "caps": []}),
            }
        })
        .collect();
    (Value::Array(v), owned_ok)
}

fn abs_glob(g: &Glob<'_>, sigma: &[u32], paths: &[String]) -> Value {
    let ncap = g.captures().count();
    let (ms, owned_ok) = matches(g, ncap + 1, paths);
    json!({
        "kind": "glob", "dfa": table(g.verif_pattern(), sigma), "q": queries(g),
        "sem": g.has_semantic_literals(), "empty": g.is_empty(), "ncap": ncap,
        "caps": g.captures().map(|c| json!([c.index(), c.span().0, c.span().1])).collect::<Vec<_>>(),
        "display": cps(&g.to_string()), "ms": ms, "owned_ok": owned_ok,
        "part": partition_of(g),
    })
}

/// what partitioning this value gives: prefix, displayed postfix and the language of the postfix
fn partition_of(g: &Glob<'_>) -> Value {
    match crate::observe::guarded(|| {
        let (prefix, post) = g.clone().partition();
        json!({"prefix": cps(&prefix.to_string_lossy()), "has_post": post.is_some(),
               "post": post.as_ref().map_or_else(Vec::new, |p| cps(&p.to_string())),
               "post_root": post.as_ref().map_or("never".to_string(), |p| format!("{:?}", p.has_root()))})
    }) {
        Ok(v) => v,
        Err(site) => json!({"panic": site}),
    }
}

fn abs_any(a: &Any<'_>, sigma: &[u32], paths: &[String]) -> Value {
    let (ms, owned_ok) = matches(a, 0, paths);
    json!({"kind": "any", "dfa": table(a.verif_pattern(), sigma), "q": queries(a), "ms": ms, "owned_ok": owned_ok})
}

fn run_route(id: u64, route_no: usize, e: &str, sigma: &[u32], paths: &[String], route: &[String], out: &mut Vec<String>) {
    let mut seq = 0;
    let mut emit = |ev: &str, abs: Value, out: &mut Vec<String>| {
        seq += 1;
        out.push(json!({"id": id, "route": route_no, "seq": seq, "ev": ev, "abs": abs}).to_string());
    };
    let built = guarded(|| Glob::new(e).map(Glob::into_owned));
    let mut glob: Glob<'static> = match built {
        Ok(Ok(g)) => g,
        _ => return,
    };
    emit("new", abs_glob(&glob, sigma, paths), out);
    // once the value is a combinator, the remaining steps wrap it again
    let mut combinator: Option<Any<'static>> = None;
    for step in route {
        if let Some(current) = combinator.take() {
            let r = guarded(|| -> Result<(Any<'static>, Value), String> {
                let next = match step.as_str() {
                    // the combinator passed through a combinator as a compiled value
                    "any_again" => wax::any([current]).map_err(|e| e.to_string())?,
                    // a combinator of nothing in front of it (a new value: Lifecycle!Reset)
                    "any_mix_empty" => {
                        wax::any([wax::any(Vec::<&str>::new()).map_err(|e| e.to_string())?, current]).map_err(|e| e.to_string())?
                    },
                    other => return Err(format!("unknown step {} on a combinator", other)),
                };
                let a = abs_any(&next, sigma, paths);
                Ok((next, a))
            });
            match r {
                Ok(Ok((next, abs))) => {
                    emit(step, abs, out);
                    combinator = Some(next);
                    continue;
                },
                Ok(Err(error)) => {
                    emit(step, json!({"kind": "error", "error": error}), out);
                    return;
                },
                Err(site) => {
                    emit(step, json!({"kind": "panic", "error": site}), out);
                    return;
                },
            }
        }
        let text = glob.to_string();
        if step == "any_compiled_keep" || step == "any_nested_keep" {
            // as any_compiled / any_nested, but the combinator is kept for further steps
            let r = guarded(|| -> Result<(Any<'static>, Value), String> {
                let a = if step == "any_compiled_keep" {
                    wax::any([glob.clone()]).map_err(|e| e.to_string())?
                }
                else {
                    wax::any([wax::any([glob.clone()])]).map_err(|e| e.to_string())?
                };
                let abs = abs_any(&a, sigma, paths);
                Ok((a, abs))
            });
            match r {
                Ok(Ok((a, abs))) => {
                    emit(step, abs, out);
                    combinator = Some(a);
                    continue;
                },
                Ok(Err(error)) => {
                    emit(step, json!({"kind": "error", "error": error}), out);
                    return;
                },
                Err(site) => {
                    emit(step, json!({"kind": "panic", "error": site}), out);
                    return;
                },
            }
        }
        let r = guarded(|| -> Result<(Option<Glob<'static>>, Value), String> {
            match step.as_str() {
                "clone" => {
                    let g = glob.clone();
                    let a = abs_glob(&g, sigma, paths);
                    Ok((Some(g), a))
                },
                "into_owned" => {
                    let g = glob.clone().into_owned();
                    let a = abs_glob(&g, sigma, paths);
                    Ok((Some(g), a))
                },
                "display_new" => {
                    let g = Glob::new(&text).map_err(|e| e.to_string())?;
                    let a = abs_glob(&g, sigma, paths);
                    Ok((Some(g.into_owned()), a))
                },
                "from_str" => {
                    let g: Glob<'static> = text.parse().map_err(|e: wax::BuildError| e.to_string())?;
                    let a = abs_glob(&g, sigma, paths);
                    Ok((Some(g), a))
                },
                "try_from" => {
                    let g = Glob::try_from(text.as_str()).map_err(|e| e.to_string())?;
                    let a = abs_glob(&g, sigma, paths);
                    Ok((Some(g.into_owned()), a))
                },
                "any_text" => {
                    let a = wax::any([text.as_str()]).map_err(|e| e.to_string())?;
                    Ok((None, abs_any(&a, sigma, paths)))
                },
                "any_compiled" => {
                    let a = wax::any([glob.clone()]).map_err(|e| e.to_string())?;
                    Ok((None, abs_any(&a, sigma, paths)))
                },
                "any_nested" => {
                    let a = wax::any([wax::any([glob.clone()])]).map_err(|e| e.to_string())?;
                    Ok((None, abs_any(&a, sigma, paths)))
                },
                other => Err(format!("unknown step {}", other)),
            }
        });
        match r {
            Ok(Ok((next, abs))) => {
                emit(step, abs, out);
                match next {
                    Some(g) => glob = g,
                    None => return,
                }
            },
            Ok(Err(error)) => {
                emit(step, json!({"kind": "error", "error": error}), out);
                return;
            },
            Err(site) => {
                emit(step, json!({"kind": "panic", "error": site}), out);
                return;
            },
        }
    }
}

pub fn run(_args: &[String]) {
    install_panic_hook();
    let stdin = std::io::stdin();
    let cases: Vec<Value> = stdin
        .lock()
        .lines()
        .map(|l| l.unwrap())
        .filter(|l| !l.trim().is_empty())
        .map(|l| serde_json::from_str(&l).expect("bad case"))
        .collect();
    let threads = 8usize;
    let chunk = ((cases.len() + threads - 1) / threads).max(1);
    let mut results: Vec<Vec<String>> = vec![];
    std::thread::scope(|scope| {
        let handles: Vec<_> = cases
            .chunks(chunk)
            .map(|part| {
                scope.spawn(move || {
                    let mut out = vec![];
                    for case in part {
                        let id = case["id"].as_u64().unwrap_or(0);
                        let e = from_cps(&case["e"]);
                        let sigma: Vec<u32> = case["sigma"].as_array().map(|a| a.iter().filter_map(|x| x.as_u64()).map(|x| x as u32).collect()).unwrap_or_default();
                        let paths: Vec<String> = case["paths"].as_array().map(|a| a.iter().map(from_cps).collect()).unwrap_or_default();
                        if let Some(routes) = case["routes"].as_array() {
                            for (n, route) in routes.iter().enumerate() {
                                let route: Vec<String> = route.as_array().map(|a| a.iter().filter_map(|x| x.as_str()).map(String::from).collect()).unwrap_or_default();
                                run_route(id, n + 1, &e, &sigma, &paths, &route, &mut out);
                            }
                        }
                    }
                    out
                })
            })
            .collect();
        for h in handles {
            results.push(h.join().expect("lifecycle thread died"));
        }
    });
    let out = std::io::stdout();
    let mut out = std::io::BufWriter::new(out.lock());
    for part in results {
        for line in part {
            writeln!(out, "{}", line).unwrap();
        }
    }
}
