//! `wv walk`: builds the file tree of a scenario on a real file system, runs the real walker with a
//! fixed-shape stack of combinators (unused slots are pass-through probes), and records the hook
//! events of every `next()` call together with what it returned. `spec/WalkTrace.tla` validates the
//! recorded traces against `spec/Walk.tla`.
//!
//! Scenarios with permission faults must not run as root (root can read everything): the
//! orchestrator runs this subcommand through `setpriv` as `nobody`, after `wv walk-build` (as
//! root) created the trees.

use serde_json::{json, Value};
use std::collections::HashMap;
use std::io::{BufRead, Write};
use std::os::unix::fs::PermissionsExt;
use std::path::{Path, PathBuf};
use wax::walk::{DepthBehavior, Entry, EntryResidue, FileIterator, GlobEntry, LinkBehavior, PathExt, WalkBehavior, WalkError};
use wax::{Glob, Program};

use crate::observe::{cps, from_cps, guarded, install_panic_hook};

struct Node {
    id: usize,
    parent: usize,
    name: String,
    kind: String,
    target: usize,
    readable: bool,
}

fn nodes_of(sc: &Value) -> Vec<Node> {
    sc["nodes"]
        .as_array()
        .unwrap()
        .iter()
        .map(|n| Node {
            id: n["id"].as_u64().unwrap() as usize,
            parent: n["parent"].as_u64().unwrap() as usize,
            name: from_cps(&n["name"]),
            kind: n["kind"].as_str().unwrap().to_string(),
            target: n["target"].as_u64().unwrap_or(0) as usize,
            readable: n["readable"].as_bool().unwrap_or(true),
        })
        .collect()
}

/// A node name as a file name: the private-use code points U+E080..U+E0FF stand for the raw bytes 0x80..0xFF, so
/// that scenarios can hold names that are not valid UTF-8.
fn os_name(name: &str) -> std::ffi::OsString {
    use std::os::unix::ffi::OsStringExt;
    let mut bytes = vec![];
    for c in name.chars() {
        let u = c as u32;
        if (0xE080..=0xE0FF).contains(&u) {
            bytes.push((u - 0xE000) as u8);
        }
        else {
            let mut buf = [0u8; 4];
            bytes.extend_from_slice(c.encode_utf8(&mut buf).as_bytes());
        }
    }
    std::ffi::OsString::from_vec(bytes)
}

fn node_path(nodes: &[Node], top: &Path, id: usize) -> PathBuf {
    let mut parts = vec![];
    let mut cur = id;
    while cur != 0 {
        let n = nodes.iter().find(|n| n.id == cur).unwrap();
        parts.push(n.name.clone());
        cur = n.parent;
    }
    let mut p = top.to_path_buf();
    for part in parts.iter().rev() {
        p.push(os_name(part));
    }
    p
}

/// Creates the tree of the scenario beneath `top` (node 1 is `top/<name of node 1>`).
pub fn build_tree(sc: &Value, top: &Path) -> std::io::Result<()> {
    let nodes = nodes_of(sc);
    std::fs::create_dir_all(top)?;
    std::fs::set_permissions(top, std::fs::Permissions::from_mode(0o755))?;
    for n in &nodes {
        let p = node_path(&nodes, top, n.id);
        match n.kind.as_str() {
            "dir" => std::fs::create_dir_all(&p)?,
            "file" => std::fs::write(&p, b"x")?,
            "link" => {
                let target = if n.target == 0 {
                    top.join("__missing__")
                }
                else {
                    node_path(&nodes, top, n.target)
                };
                std::os::unix::fs::symlink(target, &p)?;
            },
            _ => {},
        }
    }
    // permissions last, deepest first is not needed: chmod does not need to traverse
    for n in &nodes {
        if n.kind == "dir" {
            let p = node_path(&nodes, top, n.id);
            let mode = if n.readable { 0o755 } else { 0o000 };
            std::fs::set_permissions(&p, std::fs::Permissions::from_mode(mode))?;
        }
        else if n.kind == "file" {
            let p = node_path(&nodes, top, n.id);
            std::fs::set_permissions(&p, std::fs::Permissions::from_mode(0o644))?;
        }
    }
    Ok(())
}

pub fn unlock_tree(top: &Path) {
    // make everything removable again
    fn rec(p: &Path) {
        if let Ok(md) = std::fs::symlink_metadata(p) {
            if md.is_dir() {
                let _ = std::fs::set_permissions(p, std::fs::Permissions::from_mode(0o755));
                if let Ok(rd) = std::fs::read_dir(p) {
                    for e in rd.flatten() {
                        rec(&e.path());
                    }
                }
            }
        }
    }
    rec(top);
}

fn event_json(ev: &wax::verif::Event, strip: &Path) -> Value {
    use wax::verif::Event::*;
    match ev {
        Yield { path, depth, is_dir, error } => json!({
            "ev": "yield",
            "path": path.as_ref().map(|p| rel_text(p, strip)),
            "depth": depth, "is_dir": is_dir, "err": error.unwrap_or("none"),
        }),
        End => json!({"ev": "end"}),
        Cancel { effective } => json!({"ev": "cancel", "effective": effective}),
        LayerIn { input } => json!({"ev": "in", "sep": input.to_string()}),
        LayerVerdict { verdict } => json!({"ev": "verdict", "v": verdict.to_string()}),
    }
}

/// path relative to the scratch directory of the scenario, as text ("" for the scratch dir itself)
fn rel_text(p: &Path, strip: &Path) -> Value {
    // a relative path is relative to the scratch directory (scenarios with a relative base run there)
    if p.is_relative() && !p.as_os_str().is_empty() {
        let base = REL_BASE.lock().unwrap().clone();
        let r: PathBuf = base.components().chain(p.components()).filter(|c| !matches!(c, std::path::Component::CurDir)).collect();
        return json!({"in": true, "p": cps(&r.to_string_lossy())});
    }
    match p.strip_prefix(strip) {
        Ok(r) => json!({"in": true, "p": cps(&r.to_string_lossy())}),
        Err(_) => json!({"in": false, "p": cps(&p.to_string_lossy())}),
    }
}

/// what relative paths of the scenario in progress are relative to, beneath the scratch directory (scenarios with a
/// relative base change the current directory and run one after the other)
static REL_BASE: std::sync::Mutex<PathBuf> = std::sync::Mutex::new(PathBuf::new());

type BoxFn = Box<dyn FnMut(&dyn Entry) -> Option<EntryResidue>>;

fn verdict_fn(layer: Option<&Value>, strip: PathBuf) -> BoxFn {
    let table: HashMap<String, String> = layer
        .and_then(|l| l["verdicts"].as_object())
        .map(|o| o.iter().map(|(k, v)| (k.clone(), v.as_str().unwrap_or("keep").to_string())).collect())
        .unwrap_or_default();
    Box::new(move |entry: &dyn Entry| {
        let key = entry.path().strip_prefix(&strip).map(|p| p.to_string_lossy().into_owned()).unwrap_or_default();
        match table.get(&key).map(String::as_str) {
            Some("tree") => Some(EntryResidue::Tree),
            Some("file") => Some(EntryResidue::File),
            _ => None,
        }
    })
}

/// the negation of slot `layer`: `any` of the given patterns, as text or as compiled globs;
/// an unused slot gets the empty list, which never discards anything
fn not_patterns(layer: Option<&Value>) -> (Vec<String>, String) {
    match layer {
        Some(l) => (
            l["patterns"].as_array().map(|a| a.iter().map(from_cps).collect()).unwrap_or_default(),
            l["mode"].as_str().unwrap_or("text").to_string(),
        ),
        None => (vec![], "text".into()),
    }
}

macro_rules! apply_not {
    ($it:expr, $layer:expr) => {{
        let (patterns, mode) = not_patterns($layer);
        match mode.as_str() {
            "compiled" => {
                let globs: Vec<Glob<'static>> = patterns.iter().filter_map(|p| Glob::new(p).ok().map(Glob::into_owned)).collect();
                $it.not(wax::any(globs)).expect("not(compiled)")
            },
            _ => {
                let refs: Vec<&str> = patterns.iter().map(|s| s.as_str()).collect();
                $it.not(wax::any(refs)).expect("not(text)")
            },
        }
    }};
}

/// Runs `it` under the fixed stack F N F N F N F (slot i takes scenario layer `slots[i]`, if any)
/// and records one block per `next()` call.
fn drive<I, D>(it: I, slots: &[Option<Value>], strip: &Path, mut describe: D) -> Vec<Value>
where
    I: FileIterator + 'static,
    I::Entry: 'static + Entry,
    I::Residue: 'static + Entry + From<I::Entry>,
    D: FnMut(&I::Entry) -> Value,
{
    let s = |i: usize| slots.get(i).and_then(|x| x.as_ref());
    let it = it.filter_entry(verdict_fn(s(0), strip.to_path_buf()));
    let it = apply_not!(it, s(1));
    let it = it.filter_entry(verdict_fn(s(2), strip.to_path_buf()));
    let it = apply_not!(it, s(3));
    let it = it.filter_entry(verdict_fn(s(4), strip.to_path_buf()));
    let it = apply_not!(it, s(5));
    let mut it = it.filter_entry(verdict_fn(s(6), strip.to_path_buf()));
    let mut blocks = vec![];
    loop {
        wax::verif::install();
        let item = guarded(|| it.next());
        let events: Vec<Value> = wax::verif::take().iter().map(|e| event_json(e, strip)).collect();
        match item {
            Err(site) => {
                blocks.push(json!({"events": events, "item": {"k": "panic", "site": site}}));
                break;
            },
            Ok(None) => {
                blocks.push(json!({"events": events, "item": {"k": "end"}}));
                break;
            },
            Ok(Some(Ok(entry))) => {
                let facts = describe(&entry);
                blocks.push(json!({"events": events, "item": {"k": "entry", "facts": facts}}));
            },
            Ok(Some(Err(error))) => {
                let error: WalkError = error;
                blocks.push(json!({"events": events, "item": {"k": "error",
                    "path": error.path().map(|p| rel_text(p, strip)), "depth": error.depth(),
                    "text": error.to_string().chars().take(120).collect::<String>()}}));
            },
        }
        if blocks.len() > 5000 {
            blocks.push(json!({"events": [], "item": {"k": "runaway"}}));
            break;
        }
    }
    blocks
}

fn entry_facts(entry: &dyn Entry, strip: &Path, given: &Path) -> Value {
    let (root, rel) = entry.root_relative_paths();
    json!({
        "root_eq_given": root == given, "root_is_empty": root.as_os_str().is_empty(), "rel_eq_path": rel == entry.path(),
        "rel_is_absolute": rel.is_absolute(),
        "path": rel_text(entry.path(), strip),
        "root": rel_text(root, strip), "root_raw": cps(&root.to_string_lossy()),
        "rel": cps(&rel.to_string_lossy()),
        "depth": entry.depth(),
        "is_dir": entry.file_type().is_dir(), "is_symlink": entry.file_type().is_symlink(),
        // the std::path operations the statement of C14 names, evaluated here
        "joined_eq_path": root.join(rel) == entry.path(),
        "rel_components": rel.components().count(),
        // the raw bytes, from which the specification (PathAlg.tla) derives the same facts by itself
        "path_b": crate::pathalg::bytes_of(entry.path()), "root_b": crate::pathalg::bytes_of(root),
        "rel_b": crate::pathalg::bytes_of(rel), "given_b": crate::pathalg::bytes_of(given),
    })
}

pub fn run_scenario(sc: &Value, top: &Path) -> Value {
    let nodes = nodes_of(sc);
    let walked = node_path(&nodes, top, sc["walk_from"].as_u64().unwrap_or(1) as usize);
    // how the base directory is spelled
    let spelling = sc["base"].as_str().unwrap_or("abs");
    // "rel" / "reldot": relative to the current directory, which becomes the scratch directory of the scenario
    // (scenarios run one after the other): `root/a` and `./root/a`
    if spelling == "rel" || spelling == "reldot" {
        std::env::set_current_dir(top).expect("chdir to the scratch directory");
        *REL_BASE.lock().unwrap() = PathBuf::new();
    }
    // "empty": the walked directory is the current directory and is given as the empty path
    if spelling == "empty" {
        std::env::set_current_dir(&walked).expect("chdir to the walked directory");
        *REL_BASE.lock().unwrap() = walked.strip_prefix(top).expect("walked beneath top").to_path_buf();
    }
    let base: PathBuf = match spelling {
        "trailing" => PathBuf::from(format!("{}/", walked.display())),
        "dot" => walked.join("."),
        "rel" => walked.strip_prefix(top).expect("walked beneath top").to_path_buf(),
        "reldot" => Path::new(".").join(walked.strip_prefix(top).expect("walked beneath top")),
        "empty" => PathBuf::new(),
        _ => walked.clone(),
    };
    let link = if sc["follow"].as_bool().unwrap_or(false) { LinkBehavior::ReadTarget } else { LinkBehavior::ReadFile };
    let min = sc["min"].as_i64().unwrap_or(-1);
    let max = sc["max"].as_i64().unwrap_or(-1);
    // the same bounds through the different public constructors (sc.ctor)
    let lo = if min > 0 { min as usize } else { 0 };
    let depth = match sc["ctor"].as_str().unwrap_or("bounded") {
        // "the depths need not be ordered"
        "from_depths" if max >= 0 => wax::walk::DepthMinMax::from_depths_or_max(lo, max as usize),
        "from_depths_swapped" if max >= 0 => wax::walk::DepthMinMax::from_depths_or_max(max as usize, lo),
        "from_min" if max < 0 => wax::walk::DepthMin::from_min_or_unbounded(lo),
        "from_max" if max >= 0 && min <= 0 => DepthBehavior::from(wax::walk::DepthMax(max as usize)),
        _ => DepthBehavior::bounded(
            if min > 0 { Some(min as usize) } else { None },
            if max >= 0 { Some(max as usize) } else { None },
        )
        .unwrap_or_default(),
    };
    // the behaviour through the public conversions where one applies (sc.wb): From<()>, From<DepthBehavior>,
    // From<LinkBehavior> keep the defaults of the fields they do not name (no bounds, links read as files)
    let follow = sc["follow"].as_bool().unwrap_or(false);
    let behavior = match sc["wb"].as_str().unwrap_or("struct") {
        "from_unit" if !follow && min <= 0 && max < 0 => WalkBehavior::from(()),
        "from_depth" if !follow => WalkBehavior::from(depth),
        "from_link" if min <= 0 && max < 0 => WalkBehavior::from(link),
        "default" if !follow && min <= 0 && max < 0 => WalkBehavior::default(),
        _ => WalkBehavior { depth, link },
    };
    let layers: Vec<Value> = sc["layers"].as_array().cloned().unwrap_or_default();
    // assign scenario layers to slots of the fixed shape F N F N F N F
    let mut slots: Vec<Option<Value>> = vec![None; 7];
    let mut next = 0usize;
    let mut slot_of = vec![];
    for l in &layers {
        let want_not = l["kind"].as_str() == Some("not");
        while next < 7 && ((next % 2 == 1) != want_not) {
            next += 1;
        }
        if next >= 7 {
            return json!({"sid": sc["sid"], "error": "too many layers for the fixed shape"});
        }
        slots[next] = Some(l.clone());
        slot_of.push(next + 1);
        next += 1;
    }
    let strip = top.to_path_buf();
    let result = guarded(|| {
        if sc.get("glob").map_or(false, |g| !g.is_null()) {
            let text = from_cps(&sc["glob"]);
            // a rooted glob is spelled with the absolute scratch path in front of it (escaped)
            let text = if sc["rooted"].as_bool().unwrap_or(false) {
                let abs = wax::escape(&walked.to_string_lossy()).into_owned();
                // rooted_variant: the first component after the root is a pattern (/?erif/..), so that the
                // invariant prefix of the glob is the root alone and the walk starts at the root of the file
                // system, pruning by component
                let abs = if sc["rooted_variant"].as_bool().unwrap_or(false) {
                    let mut cs: Vec<char> = abs.chars().collect();
                    if cs.len() > 1 && cs[0] == '/' && cs[1].is_ascii_alphanumeric() {
                        cs[1] = '?';
                    }
                    cs.into_iter().collect()
                }
                else if sc["rooted_rep"].as_bool().unwrap_or(false) {
                    // rooted_rep: the root and the first component are written as a repetition (</verif:1,2>/..):
                    // the glob is rooted through a repetition, its invariant prefix is the root alone
                    let cut = abs[1..].find('/').map_or(abs.len(), |i| i + 1);
                    format!("<{}:1,2>{}", &abs[..cut], &abs[cut..])
                }
                else {
                    abs
                };
                format!("{}/{}", abs, text)
            }
            else {
                text
            };
            let glob = match Glob::new(&text) {
                Ok(g) => g,
                Err(e) => return json!({"error": format!("glob does not build: {}", e)}),
            };
            // a glob that can be rooted walks the file system from its root: only behind the scratch path
            if !sc["rooted"].as_bool().unwrap_or(false) && !glob.has_root().is_never() {
                return json!({"error": "refused: a rooted glob outside the scratch directory"});
            }
            let given = if sc["rooted"].as_bool().unwrap_or(false) { PathBuf::from("/nonexistent-base") } else { base.clone() };
            let g2 = glob.clone().into_owned();
            let strip2 = strip.clone();
            let given2 = given.clone();
            let describe = move |e: &GlobEntry| {
                let mut f = entry_facts(e, &strip2, &given2);
                let rel = e.root_relative_paths().1.to_string_lossy().into_owned();
                f["matched"] = json!(cps(e.matched().complete()));
                f["candidate"] = json!(cps(e.to_candidate_path().as_ref()));
                f["is_match_rel"] = json!(g2.is_match(rel.as_str()));
                f
            };
            // confine: the walk starts at the root of the file system and cannot prune by component; everything
            // that is neither an ancestor nor a descendant of the scratch directory is discarded as a tree
            let blocks = if sc["confine"].as_bool().unwrap_or(false) {
                let keep = strip.clone();
                let confined = glob.walk_with_behavior(given, behavior).filter_entry(move |e| {
                    if keep.starts_with(e.path()) || e.path().starts_with(&keep) { None } else { Some(EntryResidue::Tree) }
                });
                drive(confined, &slots, &strip, describe)
            }
            else {
                drive(glob.walk_with_behavior(given, behavior), &slots, &strip, describe)
            };
            json!({"blocks": blocks, "glob_text": cps(&text),
                   "glob_root": format!("{:?}", glob.has_root()), "given": cps(&base.to_string_lossy())})
        }
        else {
            let strip2 = strip.clone();
            let given2 = base.clone();
            let blocks = drive(base.as_path().walk_with_behavior(behavior), &slots, &strip, move |e: &wax::walk::TreeEntry| entry_facts(e, &strip2, &given2));
            json!({"blocks": blocks})
        }
    });
    let mut out = match result {
        Ok(v) => v,
        Err(site) => json!({"error": format!("panic: {}", site)}),
    };
    out["sid"] = sc["sid"].clone();
    out["slot_of"] = json!(slot_of);
    out["walked"] = json!(cps(&walked.strip_prefix(top).map(|p| p.to_string_lossy().into_owned()).unwrap_or_default()));
    out["euid"] = json!(unsafe { geteuid() });
    out["top"] = json!(cps(&top.to_string_lossy()));
    out
}

extern "C" {
    fn geteuid() -> u32;
}

/// `wv walk --root <dir> [--build] [--run] [--clean]`: scenarios on stdin; each scenario lives in
/// `<dir>/<sid>/`.
pub fn run(args: &[String]) {
    install_panic_hook();
    let mut root = PathBuf::from("/tmp/wv-walk");
    let (mut build, mut exec, mut clean) = (false, false, false);
    let mut i = 0;
    while i < args.len() {
        match args[i].as_str() {
            "--root" => {
                root = PathBuf::from(&args[i + 1]);
                i += 1;
            },
            "--build" => build = true,
            "--run" => exec = true,
            "--clean" => clean = true,
            x => panic!("unknown argument {}", x),
        }
        i += 1;
    }
    let stdin = std::io::stdin();
    let out = std::io::stdout();
    let mut out = std::io::BufWriter::new(out.lock());
    for line in stdin.lock().lines() {
        let line = line.unwrap();
        if line.trim().is_empty() {
            continue;
        }
        let sc: Value = serde_json::from_str(&line).expect("bad scenario");
        let top = root.join(format!("s{}", sc["sid"]));
        if build {
            if let Err(e) = build_tree(&sc, &top) {
                writeln!(out, "{}", json!({"sid": sc["sid"], "error": format!("build: {}", e)})).unwrap();
                continue;
            }
        }
        if exec {
            let rec = run_scenario(&sc, &top);
            writeln!(out, "{}", rec).unwrap();
        }
        if clean {
            unlock_tree(&top);
            let _ = std::fs::remove_dir_all(&top);
        }
    }
}
