//! `wv pathalg <strings.ndjson> <out.ndjson>`: evaluates the real `std::path` on every ordered pair
//! of the byte strings that TLC generated (PathAlgCheck, MODE = gen), one record per pair.

use serde_json::{json, Value};
use std::ffi::OsStr;
use std::io::{BufRead, BufWriter, Write};
use std::os::unix::ffi::OsStrExt;
use std::path::{Component, Path};

pub fn bytes_of(p: &Path) -> Vec<u8> {
    p.as_os_str().as_bytes().to_vec()
}

fn comps(p: &Path) -> Vec<Vec<u8>> {
    p.components()
        .map(|c| match c {
            Component::RootDir => vec![b'/'],
            other => other.as_os_str().as_bytes().to_vec(),
        })
        .collect()
}

pub fn run(args: &[String]) {
    let input = std::fs::File::open(&args[0]).expect("strings");
    let strings: Vec<Vec<u8>> = std::io::BufReader::new(input)
        .lines()
        .map_while(Result::ok)
        .filter(|l| !l.trim().is_empty())
        .map(|l| {
            let v: Value = serde_json::from_str(&l).expect("json");
            v["s"].as_array().map(|a| a.iter().map(|x| x.as_u64().unwrap_or(0) as u8).collect()).unwrap_or_default()
        })
        .collect();
    let mut out = BufWriter::new(std::fs::File::create(&args[1]).expect("out"));
    for a in &strings {
        let pa = Path::new(OsStr::from_bytes(a));
        for b in &strings {
            let pb = Path::new(OsStr::from_bytes(b));
            let rest = pa.strip_prefix(pb).ok().map(comps);
            let r = json!({
                "a": a, "b": b,
                "comps_a": comps(pa), "abs_a": pa.is_absolute(),
                "join": bytes_of(&pa.join(pb)),
                "eq": pa == pb,
                "starts": pa.starts_with(pb),
                "rest": rest.unwrap_or_default(),
            });
            writeln!(out, "{}", r).expect("write");
        }
    }
}
