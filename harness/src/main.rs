//! `wv`: conformance harness binding the TLA+ specification in /verif/spec to the real wax code.
//!
//! Subcommands read and write newline-delimited JSON so that TLC (through the CommunityModules
//! `Json` module) can produce their inputs and consume their outputs.

mod dfa;
mod lifecycle;
mod observe;
mod pathalg;
mod replay;
mod total;
mod walk;

fn main() {
    let args: Vec<String> = std::env::args().skip(1).collect();
    let Some(cmd) = args.first() else {
        eprintln!("usage: wv <observe|replay> ...");
        std::process::exit(2);
    };
    match cmd.as_str() {
        "observe" => observe::run(&args[1..]),
        "replay" => replay::run(&args[1..]),
        "lifecycle" => lifecycle::run(&args[1..]),
        "walk" => walk::run(&args[1..]),
        "pathalg" => pathalg::run(&args[1..]),
        "total" => total::run(&args[1..]),
        "total-worker" => total::worker(),
        other => {
            eprintln!("unknown subcommand {}", other);
            std::process::exit(2);
        },
    }
}
