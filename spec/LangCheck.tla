----------------------------- MODULE LangCheck -----------------------------
(***************************************************************************)
(* C01: product of the documented language (strict and liberal residual    *)
(* automata of GlobMatch) with the deterministic automaton of the regular  *)
(* expression that the real wax compiled for the same expression           *)
(* (exported by `wv observe` through the verif_pattern hook).              *)
(*                                                                         *)
(* TLC visits every reachable product state, i.e. decides                  *)
(*     Lmust(e) <= L(code(e)) <= Lmay(e)                                   *)
(* for candidate paths of unbounded length over Sigma, for every recorded  *)
(* expression e.  A disagreement does not stop TLC: it is printed as one   *)
(* JSON record so that a single run reports everything; bin/verify then    *)
(* attributes records to known findings or raises a violation.             *)
(***************************************************************************)
EXTENDS KnownFindings, Json, IOUtils

Obs   == ndJsonDeserialize(IOEnv.OBS)
(* every record carries its own alphabet: sigma, a sequence of code points *)
SigmaOf(o) == o.sigma

VARIABLES case, st, must, may, impl, atStart, path
vars == <<case, st, must, may, impl, atStart, path>>

(* the stripped token tree a record stands for: a glob, or the union of the members of `any` *)
TreeOf(o) ==
  IF o.kind = "any" THEN
     LET ps == [i \in 1..Len(o.members) |-> Parse(o.members[i])] IN
     IF \A i \in DOMAIN ps : ps[i].st = "ok"
     THEN [st |-> "ok", T |-> <<[k |-> "alt", bs |-> [i \in DOMAIN ps |-> Strip(ps[i].toks)]]>>]
     ELSE [st |-> "no"]
  ELSE LET p == Parse(o.e) IN
       IF p.st = "ok" THEN [st |-> "ok", T |-> Strip(p.toks)] ELSE [st |-> p.st]

Usable(o) == o.outcome = "ok" /\ o.dfa.ok

Init ==
  /\ case \in 1..Len(Obs)
  /\ st = "new" /\ must = {} /\ may = {} /\ impl = 1 /\ atStart = TRUE /\ path = <<>>

Load ==
  /\ st = "new"
  /\ LET o == Obs[case] IN
     IF Usable(o) THEN
        LET r == TreeOf(o) IN
        IF r.st = "ok"
        THEN /\ must' = {TagTop(r.T)} /\ may' = {TagTop(r.T)} /\ st' = "run"
        ELSE /\ st' = "noparse" /\ UNCHANGED <<must, may>>
     ELSE /\ st' = "skip" /\ UNCHANGED <<must, may>>
  /\ UNCHANGED <<case, impl, atStart, path>>

Read ==
  /\ st = "run"
  /\ \E k \in DOMAIN SigmaOf(Obs[case]) :
       LET c == SigmaOf(Obs[case])[k] IN
       /\ must' = Step(must, c, atStart, TRUE)
       /\ may'  = Step(may, c, atStart, FALSE)
       /\ impl' = Obs[case].dfa.delta[impl][k]
       /\ path' = Append(path, c)
  /\ atStart' = FALSE
  /\ UNCHANGED <<case, st>>

Next == Load \/ Read
Spec == Init /\ [][Next]_vars
View == <<case, st, must, may, impl, atStart>>

ImplAcc == Obs[case].dfa.acc[impl]
MustAcc == Acc(must, atStart, TRUE)
MayAcc  == Acc(may, atStart, FALSE)

Report(r) == PrintT(ToJson(r))

(* which known deviation, if any, reproduces the code's verdict on this path *)
Explain ==
  LET T == TreeOf(Obs[case]).T IN
  [dev    |-> (Accepts(TagImplTop(T), path, TRUE) = ImplAcc),
   inrep  |-> TreeInRep(T),
   nested |-> TreeNested(T, 0),
   rooted |-> RootedTreeFirst(T)]

Sandwich ==
  st = "run" =>
    /\ (MustAcc => ImplAcc)
         \/ Report([t |-> "DISAGREE", dir |-> "less", id |-> Obs[case].id, path |-> path, x |-> Explain])
    /\ (ImplAcc => MayAcc)
         \/ Report([t |-> "DISAGREE", dir |-> "more", id |-> Obs[case].id, path |-> path, x |-> Explain])

(* consistency of the specification itself: the strict reading is contained in the liberal one *)
Ordered ==
  st = "run" =>
    (MustAcc => MayAcc) \/ Report([t |-> "SPEC", what |-> "strict_reading_accepts_what_the_liberal_rejects",
                                  id |-> Obs[case].id, path |-> path])

(* a built expression that the documented syntax does not read is a finding for C06, *)
(* reported there; here it is only counted                                            *)
Coverage ==
  st \in {"noparse"} => Report([t |-> "NOPARSE", id |-> Obs[case].id])

(* one witness (first access path found) per distinct product state, for replay in the real code *)
Witness ==
  st = "run" => Report([t |-> "W", id |-> Obs[case].id, path |-> path,
                        mu |-> MustAcc, ma |-> MayAcc, im |-> ImplAcc])

(* self-check of KnownFindings.tla: the impl-shaped tags reproduce the code exactly *)
DevExact ==
  st = "run" =>
    (Accepts(TagImplTop(TreeOf(Obs[case]).T), path, TRUE) = ImplAcc)
      \/ Report([t |-> "DEVDIFF", id |-> Obs[case].id, path |-> path, im |-> ImplAcc])
=============================================================================
