------------------------------ MODULE Lifecycle ------------------------------
(***************************************************************************)
(* C19: the life cycle of a pattern value as a (thin) state machine.       *)
(*                                                                         *)
(* abs is the abstract value of a pattern: the minimised automaton of its  *)
(* compiled program over the case's alphabet (equal tables = equal         *)
(* languages, i.e. "matches the same paths" for ALL paths), every query    *)
(* result, the capturing tokens, the display text, what partitioning it    *)
(* gives (prefix, displayed postfix), and the capture vectors on a set of  *)
(* concrete paths.                                                         *)
(*                                                                         *)
(*   Clone, IntoOwned, DisplayNew, FromStr, TryFrom :  abs' = abs          *)
(*   AnyOfText, AnyOfCompiled, AnyOfNested          :  abs' = Collapse(abs)*)
(*   AnyAgain (a combinator wrapped once more)      :  abs' = abs          *)
(*   AnyMixEmpty (an empty combinator in front)     :  a new value         *)
(* (a combinator exposes only the complete text of a match; depth, text,   *)
(* root and exhaustiveness of a single pattern are unchanged).             *)
(*                                                                         *)
(* Used as a trace specification: Routes holds recorded executions of the  *)
(* real code (`wv lifecycle`), one abstract value logged after every       *)
(* conversion; each step must be explained by the named action.            *)
(***************************************************************************)
EXTENDS Naturals, Sequences, TLC, Json, IOUtils

Routes == ndJsonDeserialize(IOEnv.TRACE)   \* [id, route, events: <<[ev, abs]>>]

VARIABLES r, l, abs, ok
vars == <<r, l, abs, ok>>

(* only capture 0 (the complete text) is exposed by a combinator *)
CollapseMatch(m) == [m |-> m.m, has |-> m.has, caps |-> IF m.has THEN <<m.caps[1]>> ELSE <<>>]
Collapse(a) ==
  IF a.kind = "glob"
  THEN [kind |-> "any", dfa |-> a.dfa, q |-> a.q, ms |-> [i \in DOMAIN a.ms |-> CollapseMatch(a.ms[i])], owned_ok |-> a.owned_ok]
  ELSE a

Identity == {"clone", "into_owned", "display_new", "from_str", "try_from"}
AnyOf == {"any_text", "any_compiled", "any_nested", "any_compiled_keep", "any_nested_keep"}
(* a combinator passed through a combinator again, as a compiled value: the same value *)
AnyAgain == {"any_again"}
(* a combinator of nothing put in front of it: a new value (it also matches what the empty *)
(* combinator matches); nothing is compared, the next steps start from it                   *)
Reset == {"any_mix_empty"}

Expected(ev, a, logged) ==
  IF ev \in Identity \cup AnyAgain THEN a
  ELSE IF ev \in AnyOf THEN Collapse(a)
  ELSE IF ev \in Reset THEN logged
  ELSE a

Init == /\ r \in 1..Len(Routes)
        /\ l = 1 /\ abs = Routes[r].events[1].abs /\ ok = TRUE

(* one action per conversion; the logged value is bound to abs' and compared with the action's effect *)
Step ==
  /\ l < Len(Routes[r].events)
  /\ LET e == Routes[r].events[l + 1] IN
     /\ abs' = e.abs
     /\ ok' = (e.abs.kind \in {"glob", "any"} /\ e.abs = Expected(e.ev, abs, e.abs))
  /\ l' = l + 1
  /\ UNCHANGED r

Next == Step
Spec == Init /\ [][Next]_vars

Report(x) == PrintT(ToJson(x))

Unchanged ==
  /\ ok \/ Report([t |-> "DISAGREE", prop |-> "C19", what |-> "conversion_changed_behaviour", id |-> Routes[r].id,
                   route |-> Routes[r].route, step |-> l, ev |-> Routes[r].events[l].ev,
                   kind |-> abs.kind])
  /\ (abs.kind \in {"glob", "any"} => abs.owned_ok)
       \/ Report([t |-> "DISAGREE", prop |-> "C19", what |-> "owned_matched_text_differs", id |-> Routes[r].id,
                  route |-> Routes[r].route, step |-> l, ev |-> Routes[r].events[l].ev, kind |-> abs.kind])

Consumed == (l = Len(Routes[r].events)) => Report([t |-> "DONE", id |-> Routes[r].id, route |-> Routes[r].route, n |-> l])
=============================================================================
