INIT Init
NEXT Next
INVARIANT SpansOK
CHECK_DEADLOCK FALSE
