-------------------------------- MODULE GenAlg --------------------------------
(***************************************************************************)
(* The family for the depth / exhaustiveness algebra (C09, C10): terms of  *)
(* every range shape (a fixed depth of 1 and 2, an open range, a range     *)
(* with only an upper bound, a two-sided range) under the three            *)
(* operations of the analysis, two levels deep:                            *)
(*     atom  := a/ | a/a/ | * / | * / * / | ** /                            *)
(*     L1    := atom | <atom:bounds> | {atom,atom}                         *)
(*     L2    := L1 | <L1:bounds> | L1 L1 | {L1,L1}                         *)
(*     case  := L2 tail          tail in {a, *}                            *)
(*            | <p L1 tail:bounds> | {p L1 tail,L1 tail}    p in {a, a/}   *)
(* with bounds in { :2  :0,1  :1,2  :2,3  :1,  (none) }.  The product of a *)
(* range with a repetition (sum of ranges under concatenation, hull under  *)
(* alternation) is thereby exercised on every pair of shapes, which the    *)
(* lexeme families reach only at 12-16 lexemes.                            *)
(***************************************************************************)
EXTENDS GlobSyntax, Json, IOUtils

cA == 97
Atoms == {<<cA, cSEP>>, <<cA, cSEP, cA, cSEP>>, <<cSTAR, cSEP>>, <<cSTAR, cSEP, cSTAR, cSEP>>, <<cSTAR, cSTAR, cSEP>>}
Bounds == {<<cCOL, 50, cGT>>, <<cCOL, 48, cCOM, 49, cGT>>, <<cCOL, 49, cCOM, 50, cGT>>, <<cCOL, 50, cCOM, 51, cGT>>,
           <<cCOL, 49, cCOM, cGT>>, <<cGT>>}
Rep(x, b) == <<cLT>> \o x \o b
Alt(x, y) == <<cLC>> \o x \o <<cCOM>> \o y \o <<cRC>>
L1 == Atoms \cup {Rep(x, b) : x \in Atoms, b \in Bounds} \cup {Alt(x, y) : x \in Atoms, y \in Atoms}
Tails == {<<cA>>, <<cSTAR>>}

(* terms behind a prefix that is not universal, inside the branch: the analyses discard such a prefix *)
(* (it bounds neither depth nor exhaustiveness by itself) and must not let what follows it escape    *)
Prefixes == {<<cA>>, <<cA, cSEP>>}
L1s == Atoms \cup {Rep(x, b) : x \in {<<cA, cSEP>>, <<cSTAR, cSEP>>, <<cSTAR, cSTAR, cSEP>>}, b \in Bounds}

VARIABLES text
Init ==
  \/ \E x \in L1, t \in Tails :
       \/ text = x \o t
       \/ \E b \in Bounds : text = Rep(x, b) \o t
       \/ \E y \in L1 : text = x \o y \o t \/ text = Alt(x, y) \o t
       \/ \E p \in Prefixes, b \in Bounds : text = Rep(p \o x \o t, b)                       \* <a/ L1 tail : bounds>
  \/ \E x \in L1s, y \in L1s, t \in Tails, p \in Prefixes \cup {<<>>} : text = Alt(p \o x \o t, y \o t)   \* {prefix L1 tail, L1 tail}
Next == UNCHANGED text
Emit == PrintT(ToJson([t |-> "CASE", fam |-> "alg", e |-> text]))
=============================================================================
