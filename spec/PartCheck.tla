------------------------------ MODULE PartCheck ------------------------------
(***************************************************************************)
(* C08: partitioning preserves meaning.  Product of the automaton of the   *)
(* original glob with a monitor that strips the reported prefix from the   *)
(* candidate path component-wise (Path::strip_prefix on canonical paths is *)
(* a string match of the canonical prefix text followed by a separator)    *)
(* and feeds the remainder to the automaton of the reported postfix.       *)
(*   canonical path p is matched by the original                           *)
(*      <=>  p = prefix joined with r, and r is matched by the postfix     *)
(*           (r empty when there is no postfix)                            *)
(* The observation clauses (postfix never rooted, re-partition idempotent, *)
(* display is a suffix and rebuilds into an equal automaton with the same  *)
(* captures) are evaluated once per case when it is loaded.                *)
(***************************************************************************)
EXTENDS GlobRules, KnownFindings, KnownFindingsRules, GlobQuery, Json, IOUtils

Obs == ndJsonDeserialize(IOEnv.OBS)

VARIABLES case, st, impl, can, k, ph, qp, path
vars == <<case, st, impl, can, k, ph, qp, path>>

(* canonical text of the reported prefix from its std::path components *)
RECURSIVE JoinComps(_, _)
CompText(c) == CASE c.k = "cur" -> <<qDOT>> [] c.k = "parent" -> <<qDOT, qDOT>> [] OTHER -> c.s
JoinComps(cs, first) ==
  IF cs = <<>> THEN <<>>
  ELSE (IF first THEN <<>> ELSE <<qSEP>>) \o CompText(Head(cs)) \o JoinComps(Tail(cs), FALSE)
PrefixText(o) ==
  LET cs == o.part.comps IN
  IF cs # <<>> /\ cs[1].k = "root" THEN <<qSEP>> \o JoinComps(Tail(cs), TRUE) ELSE JoinComps(cs, TRUE)

(* Unspecified clause U2: the prefix text has a "." component, which std::path drops while the *)
(* glob matches it literally (the documented loss of meaning of semantic literals)            *)
RECURSIVE DotComp(_, _)
DotComp(s, cur) ==   \* cur: text of the current component so far
  IF s = <<>> THEN cur = <<qDOT>>
  ELSE IF Head(s) = qSEP THEN cur = <<qDOT>> \/ DotComp(Tail(s), <<>>)
  ELSE DotComp(Tail(s), Append(cur, Head(s)))

Usable(o) == /\ o.outcome = "ok" /\ o.qpanic = "" /\ o.dfa.ok /\ (o.part.has_post => o.part.post_dfa.ok)
             /\ Parse(o.e).st = "ok"            \* expressions outside the documented syntax: no prediction
             (* expressions that violate a documented rule and build all the same are findings of C06 *)
             (* (KF23, KF24); what they mean is not defined, so nothing is claimed about partitioning *)
             /\ ViolationsCF(Strip(Parse(o.e).toks)) = {}
             /\ ~DotComp(o.part.prefix, <<>>)

Init ==
  /\ case \in 1..Len(Obs)
  /\ st = "new" /\ impl = 1 /\ can = CanonInit /\ k = 0 /\ ph = "pre" /\ qp = 1 /\ path = <<>>

Load ==
  /\ st = "new"
  /\ st' = IF Usable(Obs[case]) THEN "run" ELSE "skip"
  /\ UNCHANGED <<case, impl, can, k, ph, qp, path>>

(* ph: "pre" matching the prefix text (k characters matched), "sep" prefix complete and a separator *)
(* must follow, "post" feeding the remainder to the postfix automaton, "fail"                         *)
Read ==
  /\ st = "run"
  /\ \E j \in DOMAIN Obs[case].sigma :
       LET o == Obs[case]  c == o.sigma[j]  pfx == PrefixText(o)
           direct == pfx = <<>> \/ pfx = <<qSEP>>    \* the remainder follows the prefix immediately
           feed == IF o.part.has_post THEN o.part.post_dfa.delta[qp][j] ELSE qp
           (* phase before this character, resolving a completed prefix *)
           now == IF ph = "pre" /\ k = Len(pfx) THEN (IF direct THEN "post" ELSE "sep") ELSE ph IN
       /\ impl' = o.dfa.delta[impl][j]
       /\ can' = CanonStep(can, c, 1)
       /\ CASE now = "pre"  -> IF pfx[k + 1] = c THEN k' = k + 1 /\ ph' = "pre" /\ qp' = qp
                               ELSE ph' = "fail" /\ UNCHANGED <<k, qp>>
            [] now = "sep"  -> (IF c = qSEP THEN ph' = "post" ELSE ph' = "fail") /\ UNCHANGED <<k, qp>>
            [] now = "post" -> ph' = (IF o.part.has_post THEN "post" ELSE "fail") /\ qp' = feed /\ UNCHANGED k
            [] now = "fail" -> ph' = "fail" /\ UNCHANGED <<k, qp>>
       /\ path' = Append(path, c)
  /\ UNCHANGED <<case, st>>

Next == Load \/ Read
Spec == Init /\ [][Next]_vars
View == <<case, st, impl, can, k, ph, qp>>

Report(r) == PrintT(ToJson(r))
(* signatures of the known findings: the expression begins with a repetition that roots it (KF12); *)
(* some flag is written before the point where the expression is cut (KF26)                         *)
Sig ==
  LET o == Obs[case]  p == Parse(o.e)  cut == Len(o.e) - Len(o.part.post) + 1
      pp == IF o.part.has_post THEN Parse(o.part.post) ELSE [st |-> "none"] IN
  IF p.st # "ok" \/ p.toks = <<>>
  THEN [reproot |-> FALSE, flagcut |-> FALSE, cutok |-> FALSE, rootedtree |-> FALSE, sepclass |-> FALSE,
        postflagtree |-> (pp.st = "ok" /\ FlagBeforeLeadingTree(pp.toks))]
  ELSE [reproot |-> (p.toks[1].k = "rep" /\ RootOf(Strip(p.toks)) = "always"),
        flagcut |-> (o.part.has_post /\ \E j \in DOMAIN p.toks : p.toks[j].a < p.toks[j].f /\ p.toks[j].a < cut),
        (* the pinned code cuts the text where a top-level token begins (with or without its flags); only in  *)
        (* front of a tree wildcard does it cut inside a flag group: a cut anywhere else is not KF26          *)
        cutok |-> (o.part.has_post /\ (\/ \E j \in DOMAIN p.toks : cut = p.toks[j].a \/ cut = p.toks[j].f
                                      \/ \E j \in DOMAIN p.toks : p.toks[j].k = "tree" /\ p.toks[j].a < cut /\ cut <= p.toks[j].f)),
        rootedtree |-> RootedTreeFirst(Strip(p.toks)),
        sepclass |-> ClassListsSep(Strip(p.toks)),
        postflagtree |-> (pp.st = "ok" /\ FlagBeforeLeadingTree(pp.toks))]
Dis(what) == Report([t |-> "DISAGREE", prop |-> "C08", what |-> what, id |-> Obs[case].id, path |-> path, sig |-> Sig])

ImplAcc == Obs[case].dfa.acc[impl]
Expected ==
  LET o == Obs[case]  pfx == PrefixText(o)
      stripped == (ph = "pre" /\ k = Len(pfx)) \/ ph = "post" IN
  /\ stripped
  /\ IF o.part.has_post THEN o.part.post_dfa.acc[qp] ELSE ph = "pre"

PartitionSound ==
  (st = "run" /\ CanonNow(can)) =>
     (ImplAcc = Expected)
       \/ Dis(IF ImplAcc THEN "original_accepts_partition_does_not"
              ELSE IF ph = "pre" THEN "partition_accepts_prefix_alone"   \* the remainder is the empty path
              ELSE "partition_accepts_original_does_not")

IsSuffix(s, t) == Len(s) <= Len(t) /\ SubSeq(t, Len(t) - Len(s) + 1, Len(t)) = s

Clauses ==
  (st = "run" /\ path = <<>>) =>
    LET o == Obs[case]  p == o.part IN
    /\ Report([t |-> "IN", id |-> o.id])
    (* a glob that owns its expression text (into_owned, FromStr) partitions the same way *)
    /\ (p.own_ok /\ p.own_prefix = p.prefix /\ p.own_has_post = p.has_post /\ p.own_post = p.post)
         \/ Dis("owned_glob_partitions_differently")
    /\ (p.par_ok /\ p.par_prefix = p.prefix /\ p.par_has_post = p.has_post /\ p.par_post = p.post)
         \/ Dis("parsed_glob_partitions_differently")
    (* partition_or_empty / partition_or_tree: the same prefix and the same postfix; when there is none, the empty *)
    (* glob (matches the empty path only) and the tree glob `**` (matches every path that is not rooted)             *)
    /\ (p.poe_prefix = p.prefix /\ p.pot_prefix = p.prefix) \/ Dis("partition_or_variant_has_another_prefix")
    /\ (IF p.has_post THEN p.poe = p.post /\ p.pot = p.post /\ p.poe_dfa = p.post_dfa /\ p.pot_dfa = p.post_dfa
        ELSE p.poe = <<>> /\ p.pot = <<42, 42>> /\ p.poe_dfa = p.empty_dfa /\ p.pot_dfa = p.tree_dfa)
         \/ Dis("partition_or_variant_has_another_postfix")
    /\ (p.has_post =>
         /\ (p.post_root = "never") \/ Dis("postfix_rooted")
         /\ (p.re_has_post /\ p.re_prefix = <<>> /\ p.re_post = p.post) \/ Dis("repartition_not_idempotent")
         /\ IsSuffix(p.post, o.e) \/ Dis("postfix_display_not_a_suffix")
         /\ (p.rebuild = "ok") \/ Dis("postfix_display_does_not_rebuild")
         /\ (p.rebuild = "ok" /\ p.rebuild_dfa.ok =>
               /\ (p.rebuild_dfa = p.post_dfa) \/ Dis("rebuilt_postfix_not_equivalent")
               /\ (p.rebuild_ncap = p.post_ncap /\ p.rebuild_caps = p.post_caps) \/ Dis("rebuilt_postfix_captures_differ")))
=============================================================================
