------------------------------ MODULE EntryCheck ------------------------------
(***************************************************************************)
(* C14: every entry a walk yields describes its file consistently.  One    *)
(* record per yielded entry of a real walk (`wv walk`).  The facts the     *)
(* statement names - joining, components, equality of paths - are derived  *)
(* by the specification itself (PathAlg.tla) from the raw bytes of         *)
(*   path_b   Entry::path                                                  *)
(*   root_b, rel_b   Entry::root_relative_paths                            *)
(*   given_b  the directory given to the walk                              *)
(* and from  depth (Entry::depth),  matched / candidate / rel (texts),     *)
(* is_match_rel (the real is_match on the relative segment).  The same     *)
(* facts as evaluated by std::path in the harness are logged as well; the  *)
(* two must agree (a MODEL record is an error of PathAlg, not of wax).     *)
(***************************************************************************)
EXTENDS PathAlg, TLC, Json, IOUtils

Obs == ndJsonDeserialize(IOEnv.OBS)   \* [sid, glob : BOOLEAN, rooted : BOOLEAN, f : facts]

VARIABLES case, st
vars == <<case, st>>
Init == case \in 1..Len(Obs) /\ st = "new"
Next == st = "new" /\ st' = "done" /\ UNCHANGED case
Spec == Init /\ [][Next]_vars

Report(r) == PrintT(ToJson(r))
O == Obs[case]
F == O.f
Dis(what) == Report([t |-> "DISAGREE", prop |-> "C14", what |-> what, sid |-> O.sid, rec |-> case, rooted |-> O.rooted, glob |-> O.glob])
Model(what) == Report([t |-> "MODEL", what |-> what, sid |-> O.sid, rec |-> case])

JoinedOK == PathEq(Join(F.root_b, F.rel_b), F.path_b)
RelCount == Count(F.rel_b)
RootIsGiven == PathEq(F.root_b, F.given_b)
RelIsPath == PathEq(F.rel_b, F.path_b)
(* an entry of an unrooted walk lies beneath the given directory and its relative segment is what follows it *)
BeneathGiven == StartsWith(F.path_b, F.given_b) /\ Rest(F.path_b, F.given_b) = Below(Comps(F.rel_b))

Consistent ==
  st = "done" =>
    /\ JoinedOK \/ Dis("root_joined_with_relative_is_not_the_path")
    /\ (F.depth = RelCount) \/ Dis("depth_is_not_the_number_of_components_of_the_relative_segment")
    /\ (O.glob => F.matched = F.rel) \/ Dis("matched_text_is_not_the_relative_segment")
    /\ (O.glob => F.candidate = F.rel) \/ Dis("candidate_path_is_not_the_relative_segment")
    /\ (O.glob => F.is_match_rel) \/ Dis("relative_segment_is_not_matched_by_the_glob")
    /\ (~O.rooted => RootIsGiven) \/ Dis("root_segment_is_not_the_given_directory")
    /\ (~O.rooted => BeneathGiven) \/ Dis("relative_segment_is_not_the_path_below_the_given_directory")
    /\ (O.rooted => F.root_b = <<>> /\ RelIsPath) \/ Dis("rooted_glob_root_segment_not_empty")
    /\ (~IsAbs(F.rel_b) \/ O.rooted) \/ Dis("relative_segment_is_absolute")

(* the path algebra of the specification and std::path agree on every recorded entry *)
StdAgrees ==
  st = "done" =>
    /\ (JoinedOK <=> F.joined_eq_path) \/ Model("join")
    /\ (RelCount = F.rel_components) \/ Model("components")
    /\ (RootIsGiven <=> F.root_eq_given) \/ Model("equality_root_given")
    /\ (RelIsPath <=> F.rel_eq_path) \/ Model("equality_rel_path")
    /\ ((F.root_b = <<>>) <=> F.root_is_empty) \/ Model("empty")
    /\ (IsAbs(F.rel_b) <=> F.rel_is_absolute) \/ Model("absolute")
=============================================================================
