------------------------------ MODULE EntryCheck ------------------------------
(***************************************************************************)
(* C14: every entry a walk yields describes its file consistently.  One    *)
(* record per yielded entry of a real walk (`wv walk`); the std::path      *)
(* operations the statement names were evaluated by the harness (std is    *)
(* the oracle the statement itself names) and logged as facts:             *)
(*   joined_eq_path   root.join(rel) = path                                *)
(*   depth, rel_components                                                 *)
(*   matched, candidate, rel   (texts)   is_match_rel                      *)
(*   root_eq_given / root_is_empty / rel_eq_path                           *)
(***************************************************************************)
EXTENDS Naturals, Sequences, TLC, Json, IOUtils

Obs == ndJsonDeserialize(IOEnv.OBS)   \* [sid, glob : BOOLEAN, rooted : BOOLEAN, f : facts]

VARIABLES case, st
vars == <<case, st>>
Init == case \in 1..Len(Obs) /\ st = "new"
Next == st = "new" /\ st' = "done" /\ UNCHANGED case
Spec == Init /\ [][Next]_vars

Report(r) == PrintT(ToJson(r))
O == Obs[case]
Dis(what) == Report([t |-> "DISAGREE", prop |-> "C14", what |-> what, sid |-> O.sid, rec |-> case, rooted |-> O.rooted, glob |-> O.glob])

Consistent ==
  st = "done" =>
    /\ O.f.joined_eq_path \/ Dis("root_joined_with_relative_is_not_the_path")
    /\ (O.f.depth = O.f.rel_components) \/ Dis("depth_is_not_the_number_of_components_of_the_relative_segment")
    /\ (O.glob => O.f.matched = O.f.rel) \/ Dis("matched_text_is_not_the_relative_segment")
    /\ (O.glob => O.f.candidate = O.f.rel) \/ Dis("candidate_path_is_not_the_relative_segment")
    /\ (O.glob => O.f.is_match_rel) \/ Dis("relative_segment_is_not_matched_by_the_glob")
    /\ (~O.rooted => O.f.root_eq_given) \/ Dis("root_segment_is_not_the_given_directory")
    /\ (O.rooted => O.f.root_is_empty /\ O.f.rel_eq_path) \/ Dis("rooted_glob_root_segment_not_empty")
=============================================================================
