INIT Init
NEXT Next
INVARIANT Consistent
CHECK_DEADLOCK FALSE
