CONSTANTS
  Scenarios = {}
  Dev = {}
  MaxN = 4
  NLayers = 1
  WithLinks = FALSE
  WithFaults = FALSE
  WithGlob = TRUE
  WithDepths = FALSE
INIT MCInit
NEXT Next
CONSTRAINT GlobConstraint
INVARIANT NothingBeneathDiscarded
INVARIANT CancelOnce
INVARIANT CancelPopsOwnFrame
INVARIANT Final
INVARIANT MatchingOnly
CHECK_DEADLOCK FALSE
