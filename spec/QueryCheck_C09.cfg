INIT Init
NEXT Next
VIEW View
INVARIANT ExhaustiveSound
INVARIANT Entered
CHECK_DEADLOCK FALSE
