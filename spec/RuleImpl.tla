------------------------------ MODULE RuleImpl ------------------------------
(***************************************************************************)
(* The rule checker of src/rule.rs (`check`: boundary, bounds, branch,     *)
(* size) as the transition system it is: `branch` keeps a first-in         *)
(* first-out queue of concatenations, each queued together with its own    *)
(* *context* - the tokens that lie to the left and to the right of the     *)
(* branch token it came from (inherited from further out where the branch  *)
(* token is first or last).  One step visits the next branch token in      *)
(* document order of the concatenation at the head of the queue, checks    *)
(* its branches against the context and queues them with that context.     *)
(*                                                                         *)
(* This module is implementation-shaped on purpose: property C06 says that *)
(* "the verdict for a sub-expression depends only on its own neighbours,   *)
(* never on unrelated parts of the expression".  In the code that sentence *)
(* is the discipline with which contexts are queued; here it is the        *)
(* definition of `CtxOf`.  RuleTrace.tla validates the visits recorded     *)
(* from the real checker (hook) against these steps, and RuleRefines       *)
(* relates the verdict of this machine to the documented rules of          *)
(* GlobRules (equal up to the two named deviations of KnownFindingsRules). *)
(*                                                                         *)
(* Tokens are the positioned tokens of GlobSyntax!Parse (fields k, a, f,   *)
(* b, bs, bd, lo, hi, lead).                                               *)
(***************************************************************************)
EXTENDS GlobSyntax

NoTok == [k |-> "none"]
IsBranch(t) == t.k \in {"alt", "rep"}
IsBoundaryLeaf(t) == t.k \in {"sep", "tree"}
IsZomLeaf(t) == t.k = "zom"
RootingLeaf(t) == t.k = "sep" \/ (t.k = "tree" /\ t.lead)

(* walk::starting / walk::ending: the leaves with which a token can begin / end *)
RECURSIVE StartLeaves(_), EndLeaves(_)
StartLeaves(t) ==
  CASE t.k = "none" -> {}
    [] t.k = "alt" -> UNION {IF t.bs[x] = <<>> THEN {} ELSE StartLeaves(t.bs[x][1]) : x \in DOMAIN t.bs}
    [] t.k = "rep" -> IF t.bd = <<>> THEN {} ELSE StartLeaves(t.bd[1])
    [] OTHER -> {t}
EndLeaves(t) ==
  CASE t.k = "none" -> {}
    [] t.k = "alt" -> UNION {IF t.bs[x] = <<>> THEN {} ELSE EndLeaves(t.bs[x][Len(t.bs[x])]) : x \in DOMAIN t.bs}
    [] t.k = "rep" -> IF t.bd = <<>> THEN {} ELSE EndLeaves(t.bd[Len(t.bd)])
    [] OTHER -> {t}
HasStartingB(t) == \E x \in StartLeaves(t) : IsBoundaryLeaf(x)
HasEndingB(t) == \E x \in EndLeaves(t) : IsBoundaryLeaf(x)
HasStartingZ(t) == \E x \in StartLeaves(t) : IsZomLeaf(x)
HasEndingZ(t) == \E x \in EndLeaves(t) : IsZomLeaf(x)

(* Concatenation::terminals *)
First(s) == s[1]
Last(s) == s[Len(s)]
Only(s) == Len(s) = 1
Several(s) == Len(s) >= 2

(* check_branch: "" or the kind of the first arm that applies *)
CheckBranch(s, c) ==
  IF s = <<>> THEN ""
  ELSE IF First(s).k = "sep" /\ HasEndingB(c.l) THEN "adjacent_boundary"
  ELSE IF Last(s).k = "sep" /\ HasStartingB(c.r) THEN "adjacent_boundary"
  ELSE IF Only(s) /\ First(s).k = "tree" THEN "singular_tree"
  ELSE IF Several(s) /\ First(s).k = "tree" /\ HasEndingB(c.l) THEN "adjacent_boundary"
  ELSE IF Several(s) /\ Last(s).k = "tree" /\ HasStartingB(c.r) THEN "adjacent_boundary"
  ELSE IF IsZomLeaf(First(s)) /\ HasEndingZ(c.l) THEN "adjacent_zom"
  ELSE IF IsZomLeaf(Last(s)) /\ HasStartingZ(c.r) THEN "adjacent_zom"
  ELSE ""

(* check_alternation *)
CheckAlt(s, c) ==
  IF s # <<>> /\ RootingLeaf(First(s)) /\ c.l = NoTok THEN "rooted_branch" ELSE ""

(* check_repetition *)
CheckRep(s, c, lo) ==
  IF s = <<>> THEN ""
  ELSE IF RootingLeaf(First(s)) /\ c.l = NoTok /\ lo = 0 THEN "rooted_branch"
  ELSE IF Several(s) /\ IsBoundaryLeaf(First(s)) /\ IsBoundaryLeaf(Last(s)) THEN "adjacent_boundary"
  ELSE IF Only(s) /\ First(s).k = "sep" THEN "singular_sep"
  ELSE IF Only(s) /\ First(s).k = "zom" THEN "singular_zom"
  ELSE ""

(* the context of the branch token at position j of a concatenation queued with context c: *)
(* its own neighbours, and where it has none, what the concatenation inherited            *)
CtxOf(s, j, c) == [l |-> IF j > 1 THEN s[j - 1] ELSE c.l, r |-> IF j < Len(s) THEN s[j + 1] ELSE c.r]

(* the first failing check among the branches of a branch token, in the order of the code *)
RECURSIVE FirstErr(_, _)
FirstErr(errs, i) == IF i > Len(errs) THEN "" ELSE IF errs[i] # "" THEN errs[i] ELSE FirstErr(errs, i + 1)
VisitErr(t, c) ==
  IF t.k = "alt"
  THEN FirstErr([x \in 1..(2 * Len(t.bs)) |->
                   IF x % 2 = 1 THEN CheckBranch(t.bs[(x + 1) \div 2], c) ELSE CheckAlt(t.bs[x \div 2], c)], 1)
  ELSE LET b == CheckBranch(t.bd, c) IN IF b # "" THEN b ELSE CheckRep(t.bd, c, t.lo)

Item(s, c) == [s |-> s, c |-> c]
Pushes(t, c) == IF t.k = "alt" THEN [x \in DOMAIN t.bs |-> Item(t.bs[x], c)] ELSE <<Item(t.bd, c)>>

(* ------------------------------------------------------------------ the machine *)
(* q: the queue; pos: the next position to examine in the concatenation at its head;      *)
(* err: "" or the kind of the error that ended the check                                  *)
VARIABLES q, pos, err
rvars == <<q, pos, err>>

RInit(T) == q = <<Item(T, [l |-> NoTok, r |-> NoTok])>> /\ pos = 1 /\ err = ""

(* skip leaves and exhausted concatenations: where the next visit happens, or nowhere *)
RECURSIVE Seek(_, _)
Seek(qq, p) ==
  IF qq = <<>> THEN [q |-> <<>>, pos |-> 1]
  ELSE IF p > Len(qq[1].s) THEN Seek(Tail(qq), 1)
  ELSE IF IsBranch(qq[1].s[p]) THEN [q |-> qq, pos |-> p]
  ELSE Seek(qq, p + 1)

AtEnd == err # "" \/ Seek(q, pos).q = <<>>

(* what the next visit is: the branch token and the context its branches are checked with *)
NextVisit ==
  LET k == Seek(q, pos)
      it == k.q[1] IN
  [t |-> it.s[k.pos], c |-> CtxOf(it.s, k.pos, it.c)]

Visit ==
  /\ ~AtEnd
  /\ LET k == Seek(q, pos)
         it == k.q[1]
         t == it.s[k.pos]
         c == CtxOf(it.s, k.pos, it.c)
         e == VisitErr(t, c) IN
     /\ err' = e
     /\ q' = IF e = "" THEN k.q \o Pushes(t, c) ELSE k.q
     /\ pos' = k.pos + 1

(* ------------------------------------------------------ the phases before and after *)
(* boundary(): two boundary leaves next to each other in one concatenation *)
RECURSIVE AdjacentLeaves(_)
AdjacentLeaves(s) ==
  \/ \E j \in 1..(Len(s) - 1) : IsBoundaryLeaf(s[j]) /\ IsBoundaryLeaf(s[j + 1])
  \/ \E j \in DOMAIN s :
       \/ s[j].k = "alt" /\ \E x \in DOMAIN s[j].bs : AdjacentLeaves(s[j].bs[x])
       \/ s[j].k = "rep" /\ AdjacentLeaves(s[j].bd)
(* bounds(): ordered and not 0,0 *)
RECURSIVE BadBounds(_)
BadBounds(s) == \E j \in DOMAIN s :
       \/ s[j].k = "alt" /\ \E x \in DOMAIN s[j].bs : BadBounds(s[j].bs[x])
       \/ s[j].k = "rep" /\ (BadBounds(s[j].bd) \/ (s[j].hi # INF /\ (s[j].lo > s[j].hi \/ (s[j].lo = 0 /\ s[j].hi = 0))))

(* the whole run of the branch phase as a function (the machine is deterministic) *)
RECURSIVE RunFrom(_, _, _)
RunFrom(qq, p, n) ==
  LET k == Seek(qq, p) IN
  IF k.q = <<>> THEN [err |-> "", visits |-> n]
  ELSE LET it == k.q[1]
           t == it.s[k.pos]
           c == CtxOf(it.s, k.pos, it.c)
           e == VisitErr(t, c) IN
       IF e # "" THEN [err |-> e, visits |-> n + 1]
       ELSE RunFrom(k.q \o Pushes(t, c), k.pos + 1, n + 1)
BranchRun(T) == RunFrom(<<Item(T, [l |-> NoTok, r |-> NoTok])>>, 1, 0)

(* the visits of a complete run, in order *)
RECURSIVE VisitsFrom(_, _)
VisitsFrom(qq, p) ==
  LET k == Seek(qq, p) IN
  IF k.q = <<>> THEN <<>>
  ELSE LET it == k.q[1]
           t == it.s[k.pos]
           c == CtxOf(it.s, k.pos, it.c) IN
       <<[t |-> t, c |-> c]>> \o VisitsFrom(k.q \o Pushes(t, c), k.pos + 1)
MachineVisits(T) == VisitsFrom(<<Item(T, [l |-> NoTok, r |-> NoTok])>>, 1)

(* ---- the same contexts, structurally: what "its own neighbours" means (C06), whatever the order of the visits ---- *)
RECURSIVE OwnVisits(_, _)
OwnVisits(s, c) ==
  UNION {
    LET t == s[j]  cc == CtxOf(s, j, c) IN
    CASE t.k = "alt" -> {[t |-> t, c |-> cc]} \cup UNION {OwnVisits(t.bs[x], cc) : x \in DOMAIN t.bs}
      [] t.k = "rep" -> {[t |-> t, c |-> cc]} \cup OwnVisits(t.bd, cc)
      [] OTHER -> {}
    : j \in DOMAIN s }
AllOwnVisits(T) == OwnVisits(T, [l |-> NoTok, r |-> NoTok])
(* the queue discipline of the machine visits every branch token once, with its own context *)
MachineVisitsOwn(T) ==
  LET m == MachineVisits(T) IN
  /\ {m[i] : i \in DOMAIN m} = AllOwnVisits(T)
  /\ \A i, j \in DOMAIN m : i # j => m[i].t # m[j].t

(* "" or the first error of check(), phase by phase (the size phase is GlobRules!Oversized) *)
ImplVerdict(T) ==
  IF AdjacentLeaves(T) THEN "adjacent_boundary"
  ELSE IF BadBounds(T) THEN "bounds"
  ELSE BranchRun(T).err
=============================================================================
