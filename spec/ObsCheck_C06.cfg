INIT Init
NEXT Next
INVARIANT BuildOK
INVARIANT SpecConsistent
CHECK_DEADLOCK FALSE
