INIT Init
NEXT Next
VIEW View
INVARIANT RootSound
INVARIANT Entered
CHECK_DEADLOCK FALSE
