INIT Init
NEXT Next
VIEW View
INVARIANT ComponentSound
INVARIANT Entered
CHECK_DEADLOCK FALSE
