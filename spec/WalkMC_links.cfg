CONSTANTS
  Scenarios = {}
  Dev = {}
  MaxN = 4
  NLayers = 1
  WithLinks = TRUE
  WithFaults = TRUE
  WithGlob = FALSE
  WithDepths = TRUE
INIT MCInit
NEXT Next
INVARIANT NothingBeneathDiscarded
INVARIANT CancelOnce
INVARIANT CancelPopsOwnFrame
INVARIANT DepthBounded
INVARIANT NoDescentThroughLinks
INVARIANT Final
PROPERTY Monotone
CHECK_DEADLOCK FALSE
