----------------------------- MODULE GlobQuery -----------------------------
(***************************************************************************)
(* Contracts between what a pattern REPORTS about itself (depth variance,  *)
(* invariant text, root, exhaustiveness) and the language it MATCHES.      *)
(* Each contract is a small monitor that runs next to a deterministic      *)
(* automaton and an invariant over (automaton state, monitor state); TLC   *)
(* explores the product, so every contract is decided for candidate paths  *)
(* of unbounded length.                                                    *)
(*                                                                         *)
(* Canonical path: non-empty components separated by single separators,    *)
(* optional leading separator, no trailing separator, no component equal   *)
(* to "." (std::path drops it); the empty path and "/" are tracked as      *)
(* special cases.  A component count does not include the root.            *)
(***************************************************************************)
EXTENDS Integers, Sequences

qSEP == 47
qDOT == 46

(* ---- canonical-path monitor ---- *)
(* cs: "start" | "root" | "in" | "sep" | "bad";  dot: the current component is exactly "."  *)
(* n: number of components begun (capped);  rooted: the first character was a separator     *)
CanonInit == [cs |-> "start", dot |-> FALSE, n |-> 0, rooted |-> FALSE]

CanonStep(m, c, cap) ==
  IF m.cs = "bad" THEN m
  ELSE IF c = qSEP THEN
     CASE m.cs = "start" -> [m EXCEPT !.cs = "root", !.rooted = TRUE]
       [] m.cs = "in" /\ ~m.dot -> [m EXCEPT !.cs = "sep"]
       [] OTHER -> [m EXCEPT !.cs = "bad", !.dot = FALSE]
  ELSE
     CASE m.cs \in {"start", "root", "sep"} ->
            [m EXCEPT !.cs = "in", !.dot = (c = qDOT), !.n = IF m.n >= cap THEN cap ELSE m.n + 1]
       [] m.cs = "in" -> [m EXCEPT !.dot = FALSE]

(* the path read so far is canonical (the empty path and "/" included) *)
CanonNow(m) == m.cs \in {"start", "root"} \/ (m.cs = "in" /\ ~m.dot)
(* a canonical path with at least one component *)
CanonProper(m) == m.cs = "in" /\ ~m.dot

(* ---- C10 depth ---- *)
(* reported bounds lo..hi (hi = -1: unbounded); cap must exceed every finite bound of interest *)
DepthOK(m, lo, hi) == m.n >= lo /\ (hi = -1 \/ m.n <= hi)

(* ---- C09 exhaustiveness: obligation monitor ---- *)
(* ob:  some canonical proper prefix was accepted and the path has gone beneath it;            *)
(* obR: the bare root "/" was accepted and the path is a rooted path beneath it;              *)
(* obE: the EMPTY path was accepted and the path is a relative path beneath it;               *)
(* obX: (only with two automata, NegCheck) the prefix was accepted by the first automaton but *)
(*      not by the second                                                                     *)
ExhInit == [ob |-> FALSE, obR |-> FALSE, obE |-> FALSE, obX |-> FALSE]
ExhStep2(x, m, acc, acc2, c) ==
  [ob  |-> x.ob \/ (acc /\ acc2 /\ CanonProper(m) /\ c = qSEP),
   obX |-> x.obX \/ (acc /\ ~acc2 /\ CanonProper(m) /\ c = qSEP),
   obR |-> x.obR \/ (acc /\ m.cs = "root" /\ c # qSEP),
   obE |-> x.obE \/ (acc /\ m.cs = "start" /\ c # qSEP)]
ExhStep(x, m, acc, c) == ExhStep2(x, m, acc, TRUE, c)

(* ---- C11 invariant text: position in the reported text, or -1 once diverged ---- *)
TextInit == 0
TextStep(p, t, c) == IF p >= 0 /\ p < Len(t) /\ t[p + 1] = c THEN p + 1 ELSE -1
=============================================================================
