------------------------------ MODULE CompCheck ------------------------------
(***************************************************************************)
(* ComponentSound (C02): the glob walker prunes a directory as soon as a   *)
(* component of its path is rejected by the corresponding component        *)
(* program.  That never loses a match iff, for every path the complete     *)
(* program accepts, each of its first k (normal) components is accepted by *)
(* the k-th component program.  Product of the automaton of the complete   *)
(* program with a monitor running the component automata.                  *)
(***************************************************************************)
EXTENDS GlobQuery, TLC, Json, IOUtils

Obs == ndJsonDeserialize(IOEnv.OBS)

VARIABLES case, st, impl, can, ci, cq, failed, path
vars == <<case, st, impl, can, ci, cq, failed, path>>

Usable(o) == o.outcome = "ok" /\ o.qpanic = "" /\ o.dfa.ok /\ Len(o.walk) > 0 /\ \A i \in DOMAIN o.walk : o.walk[i].ok

Init == /\ case \in 1..Len(Obs) /\ st = "new" /\ impl = 1 /\ can = CanonInit
        /\ ci = 1 /\ cq = 1 /\ failed = 0 /\ path = <<>>
Load == /\ st = "new" /\ st' = IF Usable(Obs[case]) THEN "run" ELSE "skip"
        /\ UNCHANGED <<case, impl, can, ci, cq, failed, path>>

(* ci: index of the component being read, cq: state of its automaton; failed: first rejected component *)
K == Len(Obs[case].walk)
CompAcc == ci > K \/ Obs[case].walk[ci].acc[cq]
Read ==
  /\ st = "run"
  /\ \E j \in DOMAIN Obs[case].sigma :
       LET o == Obs[case]  c == o.sigma[j] IN
       /\ impl' = o.dfa.delta[impl][j]
       /\ can' = CanonStep(can, c, 1)
       /\ IF c = qSEP
          THEN IF can.cs = "in"      \* a component ends
               THEN /\ failed' = IF failed = 0 /\ ~CompAcc THEN ci ELSE failed
                    /\ ci' = (IF ci > K THEN ci ELSE ci + 1) /\ cq' = 1
               ELSE UNCHANGED <<failed, ci, cq>>
          ELSE /\ cq' = IF ci > K THEN cq ELSE o.walk[ci].delta[cq][j]
               /\ UNCHANGED <<failed, ci>>
       /\ path' = Append(path, c)
  /\ UNCHANGED <<case, st>>
Next == Load \/ Read
Spec == Init /\ [][Next]_vars
View == <<case, st, impl, can, ci, cq, failed>>

Report(r) == PrintT(ToJson(r))
ComponentSound ==
  (* candidate paths of a walk are rooted exactly when the glob is *)
  (st = "run" /\ CanonProper(can) /\ Obs[case].dfa.acc[impl] /\ (can.rooted = (Obs[case].q.root = "always"))) =>
     (failed = 0 /\ CompAcc)
       \/ Report([t |-> "DISAGREE", prop |-> "C02", what |-> "matched_path_would_be_pruned", id |-> Obs[case].id,
                  path |-> path, comp |-> IF failed # 0 THEN failed ELSE ci])
Entered == (st = "run" /\ path = <<>>) => Report([t |-> "IN", id |-> Obs[case].id])
=============================================================================
