CONSTANTS
  Dev = {}
  Scenarios = {}
  MaxN = 4
  NLayers = 2
  WithLinks = FALSE
  WithFaults = FALSE
  WithGlob = FALSE
  WithDepths = FALSE
INIT MCInit
NEXT Next
CONSTRAINT OnlyInitial
INVARIANT EmitScenario
CHECK_DEADLOCK FALSE
