INIT Init
NEXT Next
VIEW View
INVARIANT Sandwich
INVARIANT Ordered
INVARIANT Coverage
INVARIANT Witness
CHECK_DEADLOCK FALSE
