INIT Init
NEXT Next
INVARIANT SemLitOK
CHECK_DEADLOCK FALSE
