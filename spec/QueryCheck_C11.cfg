INIT Init
NEXT Next
VIEW View
INVARIANT TextSound
INVARIANT Entered
CHECK_DEADLOCK FALSE
