INIT Init
NEXT Next
INVARIANT Unchanged
INVARIANT Consumed
CHECK_DEADLOCK FALSE
