-------------------------------- MODULE GenTree --------------------------------
(***************************************************************************)
(* The family of tree-wildcard contexts.  How a tree wildcard is compiled  *)
(* and analysed depends on where it stands - first, in the middle, last or *)
(* alone in its concatenation, with or without a separator written before  *)
(* and after it - and on where the branch that holds it stands in the      *)
(* enclosing expression.  The lexeme families reach a wildcard inside a    *)
(* branch with neighbours on both levels only at 9-11 lexemes; this family *)
(* enumerates the dimensions directly:                                     *)
(*     X     := l ** r        l in {"", /, a/, a}   r in {"", /, /a, a}      *)
(*     B     := {X,c} | {X} | {c,X} | <X:1,2> | <X:0,1> | <X:1,> | X       *)
(*     B2    := B | {B,c} | <B:1,2>           (the branch one level down)  *)
(*     case  := L B2 R        L in {"", a, a/}    R in {"", a, /a}          *)
(* Ill-formed combinations (adjacent boundaries, rooted branches, ...) are *)
(* part of the family: the rule checker has to reject them.                *)
(***************************************************************************)
EXTENDS GlobSyntax, Json, IOUtils

cA == 97
cC == 99
Ls == {<<>>, <<cSEP>>, <<cA, cSEP>>, <<cA>>}
Rs == {<<>>, <<cSEP>>, <<cSEP, cA>>, <<cA>>}
X == {l \o <<cSTAR, cSTAR>> \o r : l \in Ls, r \in Rs}
Alt2(x, y) == <<cLC>> \o x \o <<cCOM>> \o y \o <<cRC>>
Alt1(x) == <<cLC>> \o x \o <<cRC>>
Rep(x, b) == <<cLT>> \o x \o b
B12 == <<cCOL, 49, cCOM, 50, cGT>>
B01 == <<cCOL, 48, cCOM, 49, cGT>>
B1x == <<cCOL, 49, cCOM, cGT>>
BranchForms(x) == {Alt2(x, <<cC>>), Alt1(x), Alt2(<<cC>>, x), Rep(x, B12), Rep(x, B01), Rep(x, B1x), x}
Outer(b) == {b, Alt2(b, <<cC>>), Rep(b, B12)}
Lo == {<<>>, <<cA>>, <<cA, cSEP>>}
Ro == {<<>>, <<cA>>, <<cSEP, cA>>}

VARIABLES text
Init == \E x \in X : \E b \in BranchForms(x) : \E o \in Outer(b) : \E l \in Lo, r \in Ro : text = l \o o \o r
Next == UNCHANGED text
Emit == PrintT(ToJson([t |-> "CASE", fam |-> "tree", e |-> text]))
=============================================================================
