--------------------------- MODULE KnownFindings ---------------------------
(***************************************************************************)
(* Named deviations of the pinned implementation from the documented       *)
(* behaviour, written as alternative definitions ("exact deviation         *)
(* switches", DESIGN.md section 7).  A disagreement between the code and   *)
(* the documented specification is attributed to a known finding only if   *)
(* the code's verdict EQUALS the verdict of the specification with the     *)
(* deviation switched on; anything else stays a violation.                 *)
(*                                                                         *)
(* TagImpl is a transcription of how src/encode.rs chooses one of its four *)
(* tree wildcard encodings: from the wildcard's position in its own        *)
(* concatenation and the position of the OUTERMOST enclosing branch token  *)
(* ("superposition"), ignoring intermediate nesting levels (finding KF06), *)
(* ignoring that a repetition body is written several times (KF20), and    *)
(* encoding a rooted wildcard followed by more tokens as "/.*" + optional  *)
(* separator, which ends in the middle of a component (KF04).              *)
(***************************************************************************)
EXTENDS GlobMatch

Position(j, n) == IF n = 1 THEN "Only" ELSE IF j = 1 THEN "First" ELSE IF j = n THEN "Last" ELSE "Middle"

RECURSIVE TagImpl(_, _)
TagImpl(s, sup) ==
  [j \in 1..Len(s) |->
     LET t == s[j]  own == Position(j, Len(s))  sub == IF sup = "None" THEN own ELSE sup IN
     IF t.k = "tree" THEN
        LET pos == CASE own = "First"  -> IF sup \in {"Middle", "Last"} THEN "mid" ELSE "first"
                     [] own = "Middle" -> "mid"
                     [] own = "Last"   -> IF sup \in {"First", "Middle"} THEN "mid" ELSE "last"
                     [] own = "Only"   -> "only"
            rooted == t.lead /\ pos \in {"first", "only"} IN
        [k |-> "tree", lead |-> t.lead, rooted |-> rooted, partial |-> (rooted /\ pos = "first"), pos |-> pos]
     ELSE IF t.k = "alt" THEN [k |-> "alt", bs |-> [x \in 1..Len(t.bs) |-> TagImpl(t.bs[x], sub)]]
     ELSE IF t.k = "rep" THEN [k |-> "rep", bd |-> TagImpl(t.bd, sub), lo |-> t.lo, hi |-> t.hi]
     ELSE t]

TagImplTop(T) == TagImpl(T, "None")

(* ---- syntactic signatures used to name the finding that explains a disagreement ---- *)
RECURSIVE HasTreeIn(_), TreeInRep(_), TreeNested(_, _)
HasTreeIn(s) == \E j \in DOMAIN s :
   \/ s[j].k = "tree"
   \/ s[j].k = "alt" /\ \E x \in DOMAIN s[j].bs : HasTreeIn(s[j].bs[x])
   \/ s[j].k = "rep" /\ HasTreeIn(s[j].bd)
(* a tree wildcard somewhere inside a repetition body *)
TreeInRep(s) == \E j \in DOMAIN s :
   \/ s[j].k = "rep" /\ HasTreeIn(s[j].bd)
   \/ s[j].k = "alt" /\ \E x \in DOMAIN s[j].bs : TreeInRep(s[j].bs[x])
(* a tree wildcard nested at least two branch levels deep *)
TreeNested(s, depth) == \E j \in DOMAIN s :
   \/ s[j].k = "tree" /\ depth >= 2
   \/ s[j].k = "alt" /\ \E x \in DOMAIN s[j].bs : TreeNested(s[j].bs[x], depth + 1)
   \/ s[j].k = "rep" /\ TreeNested(s[j].bd, depth + 1)
(* the expression begins with a rooted tree wildcard that is followed by more tokens *)
RECURSIVE RootedTreeFirst(_)
RootedTreeFirst(s) ==
   /\ s # <<>>
   /\ \/ s[1].k = "tree" /\ s[1].lead /\ Len(s) > 1
      \/ s[1].k = "rep" /\ RootedTreeFirst(s[1].bd)
      \/ s[1].k = "alt" /\ \E x \in DOMAIN s[1].bs : RootedTreeFirst(s[1].bs[x])

(* ---- signatures for the analysis findings (C09, C10) ---- *)
(* the last leaf of the expression (through the last branch bodies) is a separator:        *)
(* the pattern demands a trailing separator, which no canonical path has (KF25)            *)
RECURSIVE LastLeafIsSep(_)
LastLeafIsSep(s) ==
   /\ s # <<>>
   /\ LET t == s[Len(s)] IN
      \/ t.k = "sep"
      \/ t.k = "alt" /\ \E x \in DOMAIN t.bs : LastLeafIsSep(t.bs[x])
      \/ t.k = "rep" /\ LastLeafIsSep(t.bd)
(* a tree wildcard followed by a branch token with nothing between them but tokens that the   *)
(* exhaustiveness analysis keeps in its suffix (separators, zero-or-more wildcards, tree        *)
(* wildcards, branch tokens): the branch's content is then not examined (KF10)                  *)
KeptKind(t) == t.k \in {"sep", "zom", "tree", "alt", "rep"}
BranchAfter(s, j) == \E k \in (j + 1)..Len(s) :
   /\ s[k].k \in {"alt", "rep"}
   /\ \A i \in (j + 1)..(k - 1) : KeptKind(s[i])
RECURSIVE TreeThenBranch(_)
TreeThenBranch(s) == \E j \in DOMAIN s :
   \/ s[j].k = "tree" /\ BranchAfter(s, j)
   \/ s[j].k = "alt" /\ \E x \in DOMAIN s[j].bs : TreeThenBranch(s[j].bs[x])
   \/ s[j].k = "rep" /\ TreeThenBranch(s[j].bd)
(* the same with an unbounded repetition in place of the tree wildcard (KF33) *)
RECURSIVE RepThenBranch(_)
RepThenBranch(s) == \E j \in DOMAIN s :
   \/ s[j].k = "rep" /\ s[j].hi = INF /\ BranchAfter(s, j)
   \/ s[j].k = "alt" /\ \E x \in DOMAIN s[j].bs : RepThenBranch(s[j].bs[x])
   \/ s[j].k = "rep" /\ RepThenBranch(s[j].bd)
(* an unbounded repetition whose body contains a branch token (KF10) *)
RECURSIVE HasBranch(_), BranchInUnboundedRep(_)
HasBranch(s) == \E j \in DOMAIN s : s[j].k \in {"alt", "rep"}
BranchInUnboundedRep(s) == \E j \in DOMAIN s :
   \/ s[j].k = "rep" /\ ((s[j].hi = INF /\ HasBranch(s[j].bd)) \/ BranchInUnboundedRep(s[j].bd))
   \/ s[j].k = "alt" /\ \E x \in DOMAIN s[j].bs : BranchInUnboundedRep(s[j].bs[x])
(* an alternation branch ends in a tree wildcard (KF30) *)
RECURSIVE TreeLastInAltBranch(_)
TreeLastInAltBranch(s) == \E j \in DOMAIN s :
   \/ s[j].k = "alt" /\ \E x \in DOMAIN s[j].bs :
         (s[j].bs[x] # <<>> /\ s[j].bs[x][Len(s[j].bs[x])].k = "tree")
         \/ TreeLastInAltBranch(s[j].bs[x])
   \/ s[j].k = "rep" /\ TreeLastInAltBranch(s[j].bd)
(* some character class lists the separator (such a class matches nothing, C11) *)
RECURSIVE ClassListsSep(_)
ClassListsSep(s) == \E j \in DOMAIN s :
   \/ s[j].k = "class" /\ \E i \in DOMAIN s[j].items : s[j].items[i][1] <= cSEP /\ cSEP <= s[j].items[i][2]
   \/ s[j].k = "alt" /\ \E x \in DOMAIN s[j].bs : ClassListsSep(s[j].bs[x])
   \/ s[j].k = "rep" /\ ClassListsSep(s[j].bd)
=============================================================================
