INIT Init
NEXT Next
VIEW View
INVARIANT Clauses
INVARIANT OnlyTheText
CHECK_DEADLOCK FALSE
