------------------------------- MODULE GenNest -------------------------------
(***************************************************************************)
(* The family of two-level nested branch contexts for C06: a branch B2     *)
(* inside a branch B1 inside the expression, with every combination of     *)
(*   L0 B1[ L1 B2[Y (,Z)] R1 (,X) ] R0                                      *)
(* left / right neighbours at both levels, bodies that begin / end with    *)
(* boundaries and wildcards, alternations and (optional) repetitions at    *)
(* both levels.  The statement of C06 quantifies over exactly this: "every *)
(* position of a branch within its enclosing concatenation, every          *)
(* combination of sibling branches".  Lexeme families reach these shapes   *)
(* only at 9-13 lexemes.                                                   *)
(* Environment: PART (one of "0".."7": the family is emitted in 8 parts so *)
(* that tiers can sample), printed as CASE records like GenCases.          *)
(***************************************************************************)
EXTENDS GlobSyntax, Json, IOUtils

cA == 97
T(s) == s
Eps == <<>>
Lefts  == {Eps, <<cA>>, <<cSEP>>, <<cSTAR>>, <<cA, cSEP>>, <<cSTAR, cSTAR, cSEP>>, <<cA, cSEP, cSTAR, cSTAR, cSEP>>}
Rights == {Eps, <<cA>>, <<cSEP>>, <<cSTAR>>, <<cSEP, cSTAR, cSTAR>>}
Bodies == {<<cA>>, <<cSEP>>, <<cSTAR>>, <<cA, cSEP>>, <<cSEP, cA>>, <<cA, cSTAR>>, <<cSTAR, cA>>, <<cSTAR, cSEP>>,
           <<cSTAR, cSTAR, cSEP, cA>>, <<cA, cSEP, cSTAR, cSTAR>>, <<cSTAR, cSTAR>>}
Others == {<<98>>, <<cSEP, cA>>}     \* b: a sibling branch that differs from the nested ones
R12 == <<cCOL, 49, cCOM, 50, cGT>>
R01 == <<cCOL, 48, cCOM, 49, cGT>>

(* inner branch token *)
Inner == {<<cLC>> \o y \o <<cCOM>> \o z \o <<cRC>> : y \in Bodies, z \in Bodies}
         \cup {<<cLT>> \o y \o b : y \in Bodies, b \in {R12, R01}}

VARIABLES text
Init ==
  \E l0 \in Lefts, r0 \in Rights, l1 \in Lefts, r1 \in Rights, b2 \in Inner, x \in Others, k \in {"alt", "altlast", "r12", "r01", "rinf"} :
    text = l0 \o (CASE k = "alt"     -> <<cLC>> \o l1 \o b2 \o r1 \o <<cCOM>> \o x \o <<cRC>>
                    [] k = "altlast" -> <<cLC>> \o x \o <<cCOM>> \o l1 \o b2 \o r1 \o <<cRC>>
                    [] k = "r12"     -> <<cLT>> \o l1 \o b2 \o r1 \o R12
                    [] k = "r01"     -> <<cLT>> \o l1 \o b2 \o r1 \o R01
                    [] k = "rinf"    -> <<cLT>> \o l1 \o b2 \o r1 \o <<cGT>>) \o r0
Next == UNCHANGED text

Emit == PrintT(ToJson([t |-> "CASE", fam |-> "nest", e |-> text]))
=============================================================================
