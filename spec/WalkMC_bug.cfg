CONSTANTS
  Scenarios = {}
  Dev = {"TreeFromFiltrateIsNode"}
  MaxN = 3
  NLayers = 2
  WithLinks = FALSE
  WithFaults = FALSE
  WithGlob = FALSE
  WithDepths = FALSE
INIT MCInit
NEXT Next
INVARIANT CancelOnce
INVARIANT Final
CHECK_DEADLOCK FALSE
