INIT Init
NEXT Next
VIEW View
INVARIANT NegationSound
INVARIANT Entered
CHECK_DEADLOCK FALSE
