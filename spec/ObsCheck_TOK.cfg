INIT Init
NEXT Next
INVARIANT ReaderAgrees
CHECK_DEADLOCK FALSE
