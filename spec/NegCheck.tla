------------------------------- MODULE NegCheck -------------------------------
(***************************************************************************)
(* NegationSound (C03): `not` discards a whole directory tree when the     *)
(* directory matches the EXHAUSTIVE program it compiled from the pattern   *)
(* (the alternatives that report always-exhaustive).  That equals          *)
(* filtering each entry individually iff every canonical path beneath a    *)
(* canonical path accepted by the exhaustive program is accepted by the    *)
(* complete negation.  Product: exhaustive automaton x automaton of the    *)
(* whole pattern x the obligation monitor of GlobQuery.                    *)
(***************************************************************************)
EXTENDS KnownFindings, GlobRules, VarianceImpl, GlobQuery, Json, IOUtils

Obs == ndJsonDeserialize(IOEnv.OBS)

VARIABLES case, st, qe, qa, can, ob, path
vars == <<case, st, qe, qa, can, ob, path>>

Usable(o) == o.outcome = "ok" /\ o.qpanic = "" /\ o.dfa.ok /\ o.neg.exh.ok

Init == case \in 1..Len(Obs) /\ st = "new" /\ qe = 1 /\ qa = 1 /\ can = CanonInit /\ ob = ExhInit /\ path = <<>>
Load == /\ st = "new" /\ st' = IF Usable(Obs[case]) THEN "run" ELSE "skip"
        /\ UNCHANGED <<case, qe, qa, can, ob, path>>
Read ==
  /\ st = "run"
  /\ \E j \in DOMAIN Obs[case].sigma :
       LET o == Obs[case]  c == o.sigma[j] IN
       /\ qe' = o.neg.exh.delta[qe][j]
       /\ qa' = o.dfa.delta[qa][j]
       /\ can' = CanonStep(can, c, 1)
       /\ ob' = ExhStep2(ob, can, o.neg.exh.acc[qe], o.dfa.acc[qa], c)
       /\ path' = Append(path, c)
  /\ UNCHANGED <<case, st>>
Next == Load \/ Read
Spec == Init /\ [][Next]_vars
View == <<case, st, qe, qa, can, ob>>

Report(r) == PrintT(ToJson(r))
TreeOf(o) == LET p == Parse(o.e) IN IF p.st = "ok" THEN Strip(p.toks) ELSE <<>>
Sig == LET T == TreeOf(Obs[case]) IN
       [endsep |-> LastLeafIsSep(T), treebranch |-> TreeThenBranch(T), inrep |-> TreeInRep(T),
        treelastalt |-> TreeLastInAltBranch(T), branchinrep |-> BranchInUnboundedRep(T), repbranch |-> RepThenBranch(T),
        (* an optional repetition between two boundaries (KF32) *)
        skipadj |-> (T # <<>> /\ Adjacent(ExpandZ(T), "B") /\ ~Adjacent(Expand(T, {1}), "B")),
        (* a tree wildcard inside a branch: compiled through a combinator it is nested two levels deep (KF06) *)
        treenested1 |-> TreeNested(T, 1),
        (* the verdict the pattern reports: only `always` patterns belong in the exhaustive program *)
        exh |-> Obs[case].q.exh,
        implsame |-> (T # <<>> /\ ExhImpl(T) = Obs[case].q.exh)]
Dis(what) == Report([t |-> "DISAGREE", prop |-> "C03", what |-> what, id |-> Obs[case].id, path |-> path, sig |-> Sig])

NegationSound ==
  (st = "run" /\ CanonNow(can)) =>
     /\ (ob.ob => Obs[case].dfa.acc[qa]) \/ Dis("unmatched_descendant")
     /\ (ob.obR => Obs[case].dfa.acc[qa]) \/ Dis("unmatched_descendant_of_root_path")
     /\ (ob.obE => Obs[case].dfa.acc[qa]) \/ Dis("unmatched_descendant_of_empty_path")
     (* the directory itself is matched by the program that `not` compiled (through a combinator) but not by *)
     (* the pattern's own program: the two programs of one expression differ (C07's subject)                 *)
     /\ (ob.obX => Obs[case].dfa.acc[qa]) \/ Dis("unmatched_descendant_of_path_matched_only_by_the_combinator_program")
Entered == (st = "run" /\ path = <<>>) => Report([t |-> "IN", id |-> Obs[case].id])
=============================================================================
