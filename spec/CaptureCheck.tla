----------------------------- MODULE CaptureCheck -----------------------------
(***************************************************************************)
(* C04: validation of recorded capture vectors of the real matched() -     *)
(* one record per (expression, accepted path), paths being the access      *)
(* paths of the product states of C01 - against GlobCapture.               *)
(***************************************************************************)
EXTENDS GlobCapture, KnownFindings, Json, IOUtils

Obs == ndJsonDeserialize(IOEnv.OBS)   \* records [id, e, path, caps, owned_eq]

VARIABLES case, st
vars == <<case, st>>
Init == case \in 1..Len(Obs) /\ st = "new"
Next == st = "new" /\ st' = "done" /\ UNCHANGED case
Spec == Init /\ [][Next]_vars

Report(r) == PrintT(ToJson(r))

Valid ==
  st = "done" =>
    LET o == Obs[case]  p == Parse(o.e) IN
    p.st = "ok" =>
      LET T == Strip(p.toks)  v == CaptureVerdict(TagTop(T), o.path, o.caps) IN
      /\ (v = "ok") \/ Report([t |-> "DISAGREE", prop |-> "C04", what |-> v, id |-> o.id, rec |-> case, path |-> o.path,
                                 x |-> [rooted |-> RootedTreeFirst(T), inrep |-> TreeInRep(T), nested |-> TreeNested(T, 0),
                                        (* exact deviation switch: the capture vector is explained by a segmentation   *)
                                        (* under the pinned, position-dependent encodings (KnownFindings!TagImpl)      *)
                                        langdev |-> (CaptureVerdictS(TagImplTop(T), o.path, o.caps, TRUE) = "ok")]])
      /\ o.owned_eq \/ Report([t |-> "DISAGREE", prop |-> "C04", what |-> "owned_captures_differ_from_borrowed", id |-> o.id,
                                rec |-> case, path |-> o.path, x |-> [rooted |-> FALSE, inrep |-> FALSE, nested |-> FALSE, langdev |-> FALSE]])
=============================================================================
