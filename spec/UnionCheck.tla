----------------------------- MODULE UnionCheck -----------------------------
(***************************************************************************)
(* C07 (and the union half of C19): product of the automata of related     *)
(* programs.  A relation record names an original and its members (all     *)
(* recorded by `wv observe`, all built); mode "eq": the original accepts   *)
(* exactly when some member does; mode "sub": whatever a member accepts,   *)
(* the original accepts.  TLC explores every reachable tuple of automaton  *)
(* states, i.e. all candidate paths.                                       *)
(***************************************************************************)
EXTENDS KnownFindings, Json, IOUtils

Obs == ndJsonDeserialize(IOEnv.OBS)     \* Obs[i].id = i
Rel == ndJsonDeserialize(IOEnv.REL)

VARIABLES rel, qo, qm, path
vars == <<rel, qo, qm, path>>

Init == /\ rel \in 1..Len(Rel)
        /\ qo = 1 /\ qm = [i \in DOMAIN Rel[rel].members |-> 1] /\ path = <<>>

Orig == Obs[Rel[rel].orig]
Mem(i) == Obs[Rel[rel].members[i]]

Read ==
  \E k \in DOMAIN Orig.sigma :
    /\ qo' = Orig.dfa.delta[qo][k]
    /\ qm' = [i \in DOMAIN qm |-> Mem(i).dfa.delta[qm[i]][k]]
    /\ path' = Append(path, Orig.sigma[k])
    /\ UNCHANGED rel

Next == Read
Spec == Init /\ [][Next]_vars
View == <<rel, qo, qm>>

AccO == Orig.dfa.acc[qo]
AccM == \E i \in DOMAIN qm : Mem(i).dfa.acc[qm[i]]

Report(r) == PrintT(ToJson(r))

(* Attribution: is the disagreement what the pinned position-dependent encodings of the tree wildcard *)
(* produce?  It is iff every program involved accepts the path exactly when the strict automaton      *)
(* under the implementation-shaped tags (KnownFindings!TagImpl) does.                                 *)
TreeOfRec(o) ==
  IF o.kind = "any" THEN
     LET ps == [i \in 1..Len(o.members) |-> Parse(o.members[i])] IN
     IF \A i \in DOMAIN ps : ps[i].st = "ok"
     THEN [ok |-> TRUE, T |-> <<[k |-> "alt", bs |-> [i \in DOMAIN ps |-> Strip(ps[i].toks)]]>>]
     ELSE [ok |-> FALSE, T |-> <<>>]
  ELSE LET p == Parse(o.e) IN IF p.st = "ok" THEN [ok |-> TRUE, T |-> Strip(p.toks)] ELSE [ok |-> FALSE, T |-> <<>>]
DevSays(o, acc) == LET r == TreeOfRec(o) IN r.ok /\ Accepts(TagImplTop(r.T), path, TRUE) = acc
DevExplains ==
  /\ DevSays(Orig, Orig.dfa.acc[qo])
  /\ \A i \in DOMAIN qm : DevSays(Mem(i), Mem(i).dfa.acc[qm[i]])

Laws ==
  /\ (AccM => AccO) \/ Report([t |-> "DISAGREE", what |-> "member_accepts_original_rejects", rel |-> rel, path |-> path,
                                   dev |-> DevExplains])
  /\ (Rel[rel].mode = "eq" /\ AccO => AccM)
       \/ Report([t |-> "DISAGREE", what |-> "original_accepts_no_member_does", rel |-> rel, path |-> path,
                   dev |-> DevExplains])
=============================================================================
