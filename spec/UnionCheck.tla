----------------------------- MODULE UnionCheck -----------------------------
(***************************************************************************)
(* C07 (and the union half of C19): product of the automata of related     *)
(* programs.  A relation record names an original and its members (all     *)
(* recorded by `wv observe`, all built); mode "eq": the original accepts   *)
(* exactly when some member does; mode "sub": whatever a member accepts,   *)
(* the original accepts.  TLC explores every reachable tuple of automaton  *)
(* states, i.e. all candidate paths.                                       *)
(***************************************************************************)
EXTENDS Naturals, Sequences, TLC, Json, IOUtils

Obs == ndJsonDeserialize(IOEnv.OBS)     \* Obs[i].id = i
Rel == ndJsonDeserialize(IOEnv.REL)

VARIABLES rel, qo, qm, path
vars == <<rel, qo, qm, path>>

Init == /\ rel \in 1..Len(Rel)
        /\ qo = 1 /\ qm = [i \in DOMAIN Rel[rel].members |-> 1] /\ path = <<>>

Orig == Obs[Rel[rel].orig]
Mem(i) == Obs[Rel[rel].members[i]]

Read ==
  \E k \in DOMAIN Orig.sigma :
    /\ qo' = Orig.dfa.delta[qo][k]
    /\ qm' = [i \in DOMAIN qm |-> Mem(i).dfa.delta[qm[i]][k]]
    /\ path' = Append(path, Orig.sigma[k])
    /\ UNCHANGED rel

Next == Read
Spec == Init /\ [][Next]_vars
View == <<rel, qo, qm>>

AccO == Orig.dfa.acc[qo]
AccM == \E i \in DOMAIN qm : Mem(i).dfa.acc[qm[i]]

Report(r) == PrintT(ToJson(r))
Laws ==
  /\ (AccM => AccO) \/ Report([t |-> "DISAGREE", what |-> "member_accepts_original_rejects", rel |-> rel, path |-> path])
  /\ (Rel[rel].mode = "eq" /\ AccO => AccM)
       \/ Report([t |-> "DISAGREE", what |-> "original_accepts_no_member_does", rel |-> rel, path |-> path])
=============================================================================
