CONSTANTS
  Dev = {}
  Scenarios = {}
INIT TInit
NEXT TNext
INVARIANT Progress
INVARIANT Accepted
INVARIANT WalkInvariants
CHECK_DEADLOCK FALSE
