----------------------------- MODULE QueryCheck -----------------------------
(***************************************************************************)
(* C09 C10 C11 C12: product of the automaton of the regex that wax         *)
(* compiled for a pattern with the contract monitors of GlobQuery, against *)
(* the values the same pattern REPORTED (both recorded by `wv observe`).   *)
(* PROP selects the contract; every reachable product state is visited.    *)
(***************************************************************************)
EXTENDS KnownFindings, GlobRules, VarianceImpl, GlobQuery, Json, IOUtils

Obs  == ndJsonDeserialize(IOEnv.OBS)
Prop == IOEnv.PROP

(* the stripped token tree a record stands for (a glob, or the union of the members of `any`) *)
TreeOf(o) ==
  IF o.kind = "any" THEN
     LET ps == [i \in 1..Len(o.members) |-> Parse(o.members[i])]
         Alt(ms) == [k |-> "alt", bs |-> ms] IN
     IF \A i \in DOMAIN ps : ps[i].st = "ok"
     THEN LET ms == [i \in DOMAIN ps |-> Strip(ps[i].toks)] IN
          (* nested: any([any([m1]), any([m2, ...])]) as the harness builds it *)
          IF o.mode = "nested" /\ Len(ms) >= 2
          THEN <<Alt(<< <<Alt(<<ms[1]>>)>>, <<Alt(SubSeq(ms, 2, Len(ms)))>> >>)>>
          ELSE <<Alt(ms)>>
     ELSE <<>>
  ELSE LET p == Parse(o.e) IN IF p.st = "ok" THEN Strip(p.toks) ELSE <<>>

ParsesOK(o) == IF o.kind = "any" THEN \A i \in DOMAIN o.members : Parse(o.members[i]).st = "ok" ELSE Parse(o.e).st = "ok"

VARIABLES case, st, impl, can, mon, path
vars == <<case, st, impl, can, mon, path>>

MaxCap == 8

Relevant(o) ==
  CASE Prop = "C09" -> o.q.exh = "always"
    [] Prop = "C10" -> (IF o.q.dhi = -1 THEN o.q.dlo ELSE o.q.dhi) < MaxCap
    [] Prop = "C11" -> o.q.has_text
    [] Prop = "C12" -> o.q.root = "always"
    [] Prop = "IMPL" -> TRUE

(* expressions outside the documented syntax (a flag inside a tree wildcard ...) are out of the domain *)
(* - except for C11: whatever an undocumented spelling means (a class range with descending bounds builds and   *)
(* matches nothing), a pattern that reports invariant text must match that text and nothing else             *)
Usable(o) == o.outcome = "ok" /\ o.qpanic = "" /\ o.dfa.ok /\ Relevant(o) /\ (ParsesOK(o) \/ Prop = "C11")

Cap(o) == IF Prop = "C10" THEN (IF o.q.dhi = -1 THEN o.q.dlo ELSE o.q.dhi) + 1 ELSE 1

MonInit == CASE Prop = "C09" -> ExhInit [] Prop = "C11" -> TextInit [] OTHER -> 0

Init ==
  /\ case \in 1..Len(Obs)
  /\ st = "new" /\ impl = 1 /\ can = CanonInit /\ mon = MonInit /\ path = <<>>

Load ==
  /\ st = "new"
  /\ st' = IF Usable(Obs[case]) THEN "run" ELSE "skip"
  /\ UNCHANGED <<case, impl, can, mon, path>>

ImplAcc == Obs[case].dfa.acc[impl]

Read ==
  /\ st = "run"
  /\ \E k \in DOMAIN Obs[case].sigma :
       LET c == Obs[case].sigma[k]  o == Obs[case] IN
       /\ impl' = o.dfa.delta[impl][k]
       /\ can' = CanonStep(can, c, Cap(o))
       /\ mon' = CASE Prop = "C09" -> ExhStep(mon, can, ImplAcc, c)
                   [] Prop = "C11" -> TextStep(mon, o.q.text, c)
                   [] OTHER -> mon
       /\ path' = Append(path, c)
  /\ UNCHANGED <<case, st>>

Next == Load \/ Read
Spec == Init /\ [][Next]_vars
View == <<case, st, impl, can, mon>>

Report(r) == PrintT(ToJson(r))
ImplSame(o, T) ==
  /\ ParsesOK(o)
  /\ DepthImpl(T) = R(o.q.dlo, IF o.q.dhi = -1 THEN INF ELSE o.q.dhi)
  /\ ExhImpl(T) = o.q.exh
Sig == LET T == TreeOf(Obs[case]) IN
       [endsep |-> LastLeafIsSep(T), treebranch |-> TreeThenBranch(T), inrep |-> TreeInRep(T),
        sepclass |-> ClassListsSep(T), treelastalt |-> TreeLastInAltBranch(T), branchinrep |-> BranchInUnboundedRep(T),
        repbranch |-> RepThenBranch(T), exh |-> Obs[case].q.exh,
        skipadj |-> (T # <<>> /\ Adjacent(ExpandZ(T), "B") /\ ~Adjacent(Expand(T, {1}), "B")),
        (* the reported value is what the transcription of the pinned algorithm computes *)
        implsame |-> ImplSame(Obs[case], T)]
Dis(what) == Report([t |-> "DISAGREE", prop |-> Prop, what |-> what, id |-> Obs[case].id, path |-> path, sig |-> Sig])

(* C09: everything canonical beneath an accepted canonical path is accepted *)
ExhaustiveSound ==
  (st = "run" /\ Prop = "C09" /\ CanonNow(can)) =>
     /\ (mon.ob => ImplAcc) \/ Dis("unmatched_descendant")
     /\ (mon.obR => ImplAcc) \/ Dis("unmatched_descendant_of_root_path")
     /\ (mon.obE => ImplAcc) \/ Dis("unmatched_descendant_of_empty_path")

(* C10: an accepted canonical path (rooted iff the pattern is) has a depth inside the bounds *)
RootAgrees(o) == (o.q.root = "always" => can.rooted) /\ (o.q.root = "never" => ~can.rooted)
DepthSound ==
  (st = "run" /\ Prop = "C10" /\ ImplAcc /\ CanonNow(can) /\ RootAgrees(Obs[case])) =>
     DepthOK(can, Obs[case].q.dlo, Obs[case].q.dhi)
       \/ Dis(IF can.cs = "start" THEN "empty_path_outside_bounds"
              ELSE IF can.cs = "root" THEN "root_path_outside_bounds"
              ELSE IF can.n < Obs[case].q.dlo THEN "below_lower" ELSE "above_upper")

(* C11: the language is {text} (a subset of it if the text cannot be matched) *)
TextSound ==
  (st = "run" /\ Prop = "C11") =>
     /\ (ImplAcc => mon = Len(Obs[case].q.text)) \/ Dis("matches_other_than_text")
     /\ ((mon = Len(Obs[case].q.text) /\ ~ClassListsSep(TreeOf(Obs[case]))) => ImplAcc) \/ Dis("text_not_matched")

(* C12: a pattern that always has a root only matches paths that begin with a separator *)
RootSound ==
  (st = "run" /\ Prop = "C12" /\ ImplAcc) => can.rooted \/ Dis("unrooted_match")

(* self-check of VarianceImpl.tla: the transcription reproduces the code on every case *)
ImplExact ==
  (st = "run" /\ Prop = "IMPL" /\ path = <<>> /\ ParsesOK(Obs[case])) =>
     LET T == TreeOf(Obs[case])  o == Obs[case] IN
     ImplSame(o, T) \/ Report([t |-> "IMPLDIFF", id |-> o.id, depth |-> DepthImpl(T), exh |-> ExhImpl(T),
                                rdlo |-> o.q.dlo, rdhi |-> o.q.dhi, rexh |-> o.q.exh])
OnlyLoaded == path = <<>>

(* vacuity guard / coverage: one line per case that entered the product *)
Entered == (st = "run" /\ path = <<>>) => Report([t |-> "IN", id |-> Obs[case].id])
=============================================================================
