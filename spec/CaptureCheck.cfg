INIT Init
NEXT Next
INVARIANT Valid
CHECK_DEADLOCK FALSE
