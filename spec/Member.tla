------------------------------- MODULE Member -------------------------------
(***************************************************************************)
(* Membership queries: for each record [id, e, path] of OBS, whether the   *)
(* strict and the liberal reading of the documented language of e accept   *)
(* path.  Used for directed replays: paths that are chosen for a reason    *)
(* (the text a glob reports as invariant) rather than as witnesses of      *)
(* product states are run through the real engine and judged here.         *)
(***************************************************************************)
EXTENDS GlobMatch, Json, IOUtils

Obs == ndJsonDeserialize(IOEnv.OBS)
VARIABLES case
Init == case \in 1..Len(Obs)
Next == UNCHANGED case
Emit ==
  LET o == Obs[case]  p == Parse(o.e) IN
  PrintT(ToJson([t |-> "MEMBER", id |-> o.id, parses |-> (p.st = "ok"),
                 mu |-> (p.st = "ok" /\ Accepts(TagTop(Strip(p.toks)), o.path, TRUE)),
                 ma |-> (p.st = "ok" /\ Accepts(TagTop(Strip(p.toks)), o.path, FALSE))]))
=============================================================================
