---------------------------- MODULE GlobSyntax ----------------------------
(***************************************************************************)
(* The documented glob dialect of wax as a reader from text to token       *)
(* trees.  Written from the README grammar (sections Patterns, Flags),     *)
(* not from src/token/parse.rs.  Characters are code points (naturals),    *)
(* an expression is a sequence of code points.                             *)
(*                                                                         *)
(*   glob     := concat | <empty>                                          *)
(*   concat   := (flags* token)+                                           *)
(*   token    := literal | '/' | '?' | '*' | '$' | tree | class            *)
(*             | '{' concat (',' concat)* '}'                              *)
(*             | '<' concat (':' (n | n ',' | n ',' m)?)? '>'              *)
(*   literal  := (c not in META+{'/','\'} | '\' m, m in META)+             *)
(*   tree     := ('/' | beginning of sub-expr.) '**' ('/' | end of it)     *)
(*   class    := '[' '!'? (x '-' y | x)+ ']'                               *)
(*   flags    := '(?' ('i' | '-i')+ ')'                                    *)
(*   defaults := <e> = <e:0,>   <e:> = <e:1,>   <e:n> = <e:n,n>            *)
(*                                                                         *)
(* Result of Parse(e):                                                     *)
(*   [st |-> "ok",  toks |-> T]    T a sequence of tokens                  *)
(*   [st |-> "syn"]                not in the documented syntax            *)
(*   [st |-> "ood"]                outside the domain the properties       *)
(*                                 speak about (a flag inside a tree       *)
(*                                 wildcard or at the very end of a        *)
(*                                 sub-expression; a class range whose     *)
(*                                 bounds are out of order): no prediction *)
(* Every token carries a (first code point incl. leading flags),           *)
(* f (first code point excl. flags) and b (one past the last code point).  *)
(***************************************************************************)
EXTENDS Naturals, Sequences, FiniteSets, TLC

INF == 1000000   \* "no upper bound"
BIG == 999999    \* a bound with more than six digits (value not modelled)

cSEP == 47  cSTAR == 42  cQ == 63   cDOL == 36  cCOL == 58  cLT == 60  cGT == 62
cLP == 40   cRP == 41    cLB == 91  cRB == 93   cLC == 123  cRC == 125 cCOM == 44
cBS == 92   cBANG == 33  cDASH == 45  cI == 105  cDOT == 46  cNL == 10

META == {cQ, cSTAR, cDOL, cCOL, cLT, cGT, cLP, cRP, cLB, cRB, cLC, cRC, cCOM}

At(e, i) == IF i >= 1 /\ i <= Len(e) THEN e[i] ELSE 0
IsDigit(c) == c >= 48 /\ c <= 57

Err(kind) == [st |-> kind]

(* UTF-8 length of a code point and byte offset of code point position i. *)
U8(c) == IF c < 128 THEN 1 ELSE IF c < 2048 THEN 2 ELSE IF c < 65536 THEN 3 ELSE 4
RECURSIVE ByteOff(_, _)
ByteOff(e, i) == IF i <= 1 THEN 0 ELSE ByteOff(e, i - 1) + U8(e[i - 1])
ByteLen(e) == ByteOff(e, Len(e) + 1)
(* byte span <<start, length>> of the code point range [a, b) *)
ByteSpan(e, a, b) == <<ByteOff(e, a), ByteOff(e, b) - ByteOff(e, a)>>

(* ---- flags: zero or more groups "(?" ("i" | "-i")+ ")" ---- *)
RECURSIVE FlagItems(_, _, _, _)
FlagItems(e, i, ci, n) ==
  IF At(e, i) = cI THEN FlagItems(e, i + 1, TRUE, n + 1)
  ELSE IF At(e, i) = cDASH /\ At(e, i + 1) = cI THEN FlagItems(e, i + 2, FALSE, n + 1)
  ELSE [i |-> i, ci |-> ci, n |-> n]

RECURSIVE Flags(_, _, _, _)
Flags(e, i, ci, had) ==
  IF At(e, i) = cLP /\ At(e, i + 1) = cQ THEN
    LET r == FlagItems(e, i + 2, ci, 0) IN
    IF r.n = 0 \/ At(e, r.i) # cRP THEN Err("syn")
    ELSE Flags(e, r.i + 1, r.ci, TRUE)
  ELSE [st |-> "ok", i |-> i, ci |-> ci, had |-> had]

(* ---- digits ---- *)
RECURSIVE Digits(_, _, _, _)
Digits(e, i, v, n) ==
  IF IsDigit(At(e, i))
  THEN Digits(e, i + 1, IF n >= 6 THEN BIG ELSE v * 10 + (At(e, i) - 48), n + 1)
  ELSE [i |-> i, v |-> v, n |-> n]

(* ---- class ---- *)
ClassChar(e, i) ==
  LET c == At(e, i) IN
  IF c = cBS THEN
     IF At(e, i + 1) \in {cLB, cRB, cDASH}
     THEN [st |-> "ok", c |-> At(e, i + 1), i |-> i + 2] ELSE Err("syn")
  ELSE IF c = 0 \/ c \in {cLB, cRB, cDASH} THEN Err("none")
  ELSE [st |-> "ok", c |-> c, i |-> i + 1]

RECURSIVE ClassItems(_, _, _)
ClassItems(e, i, items) ==
  LET x == ClassChar(e, i) IN
  IF x.st = "syn" THEN Err("syn")
  ELSE IF x.st = "none" THEN [st |-> "ok", i |-> i, items |-> items]
  ELSE IF At(e, x.i) = cDASH THEN
         LET y == ClassChar(e, x.i + 1) IN
         IF y.st # "ok" THEN Err("syn")
         ELSE ClassItems(e, y.i, Append(items, <<x.c, y.c>>))
       ELSE ClassItems(e, x.i, Append(items, <<x.c, x.c>>))

Class(e, i) ==
  LET neg == At(e, i + 1) = cBANG
      r == ClassItems(e, IF neg THEN i + 2 ELSE i + 1, <<>>) IN
  IF r.st # "ok" THEN Err("syn")
  ELSE IF r.items = <<>> \/ At(e, r.i) # cRB THEN Err("syn")
  (* a range whose bounds are out of order is not described by the documentation: no prediction *)
  ELSE IF \E k \in DOMAIN r.items : r.items[k][1] > r.items[k][2] THEN Err("ood")
  ELSE [st |-> "ok", i |-> r.i + 1, neg |-> neg, items |-> r.items]

(* ---- literal ---- *)
RECURSIVE Literal(_, _, _)
Literal(e, i, s) ==
  LET c == At(e, i) IN
  IF c = cBS THEN
    IF At(e, i + 1) \in META THEN Literal(e, i + 2, Append(s, At(e, i + 1))) ELSE Err("syn")
  ELSE IF c = 0 \/ c = cSEP \/ c \in META THEN [st |-> "ok", i |-> i, s |-> s]
  ELSE Literal(e, i + 1, Append(s, c))

(* ---- concatenation / tokens ---- *)
RECURSIVE Concat(_, _, _, _, _), Branches(_, _, _, _)

(* what follows the two asterisks of a tree wildcard; a = start incl. flags, f = start excl. *)
TreePost(e, i, ci, lead, terms, a, f) ==
  LET g == Flags(e, i, ci, FALSE) IN
  IF g.st # "ok" THEN Err("syn")
  ELSE IF At(e, g.i) = cSEP THEN
         IF g.had THEN Err("ood")
         ELSE [st |-> "ok", i |-> g.i + 1, ci |-> ci,
               tok |-> [k |-> "tree", lead |-> lead, trail |-> TRUE, a |-> a, f |-> f, b |-> g.i + 1]]
       ELSE IF At(e, i) = 0 \/ At(e, i) \in terms THEN
         [st |-> "ok", i |-> i, ci |-> ci,
          tok |-> [k |-> "tree", lead |-> lead, trail |-> FALSE, a |-> a, f |-> f, b |-> i]]
       ELSE IF g.had /\ (At(e, g.i) = 0 \/ At(e, g.i) \in terms) THEN Err("ood")
       ELSE Err("syn")

Concat(e, i0, ci0, terms, toks) ==
  LET fl == Flags(e, i0, ci0, FALSE) IN
  IF fl.st # "ok" THEN Err("syn") ELSE
  LET i == fl.i  ci == fl.ci  c == At(e, i)
      Cont(r) == IF r.st # "ok" THEN r ELSE Concat(e, r.i, r.ci, terms, Append(toks, r.tok))
      Leaf(t, j) == [st |-> "ok", i |-> j, ci |-> ci, tok |-> t @@ [a |-> i0, f |-> i, b |-> j]]
  IN
  IF c = 0 \/ c \in terms THEN
     IF fl.had THEN Err("ood") ELSE [st |-> "ok", i |-> i, ci |-> ci, toks |-> toks]
  ELSE IF c = cSEP THEN
     LET g == Flags(e, i + 1, ci, FALSE) IN
     IF g.st = "ok" /\ At(e, g.i) = cSTAR /\ At(e, g.i + 1) = cSTAR /\ At(e, g.i + 2) # cSTAR THEN
        IF g.had THEN Err("ood") ELSE Cont(TreePost(e, g.i + 2, ci, TRUE, terms, i0, i))
     ELSE Cont(Leaf([k |-> "sep"], i + 1))
  ELSE IF c = cSTAR /\ At(e, i + 1) = cSTAR THEN
     IF toks # <<>> THEN Err("syn") ELSE Cont(TreePost(e, i + 2, ci, FALSE, terms, i0, i))
  ELSE IF c = cSTAR \/ c = cDOL THEN
     LET g == Flags(e, i + 1, ci, FALSE) IN
     IF g.st # "ok" THEN Err("syn")
     ELSE IF At(e, g.i) \in {cSTAR, cDOL} THEN Err("syn")
     ELSE Cont(Leaf([k |-> "zom", lazy |-> (c = cDOL)], i + 1))
  ELSE IF c = cQ THEN Cont(Leaf([k |-> "one"], i + 1))
  ELSE IF c = cLB THEN
     LET r == Class(e, i) IN
     IF r.st # "ok" THEN r
     ELSE Cont(Leaf([k |-> "class", neg |-> r.neg, items |-> r.items], r.i))
  ELSE IF c = cLC THEN
     LET r == Branches(e, i + 1, ci, <<>>) IN
     IF r.st # "ok" THEN r
     ELSE Cont([st |-> "ok", i |-> r.i, ci |-> r.ci,
                tok |-> [k |-> "alt", bs |-> r.bs, a |-> i0, f |-> i, b |-> r.i]])
  ELSE IF c = cLT THEN
     LET bd == Concat(e, i + 1, ci, {cCOL, cGT}, <<>>)
         Rep(j, lo, hi) == Cont([st |-> "ok", i |-> j, ci |-> bd.ci,
                                 tok |-> [k |-> "rep", bd |-> bd.toks, lo |-> lo, hi |-> hi,
                                          a |-> i0, f |-> i, b |-> j]]) IN
     IF bd.st # "ok" THEN bd
     ELSE IF bd.toks = <<>> THEN Err("syn")
     ELSE IF At(e, bd.i) = cGT THEN Rep(bd.i + 1, 0, INF)
     ELSE IF At(e, bd.i) = cCOL THEN
            LET d == Digits(e, bd.i + 1, 0, 0) IN
            IF d.n = 0 THEN
               IF At(e, d.i) = cGT THEN Rep(d.i + 1, 1, INF) ELSE Err("syn")
            ELSE IF At(e, d.i) = cGT THEN Rep(d.i + 1, d.v, d.v)
            ELSE IF At(e, d.i) = cCOM THEN
               LET d2 == Digits(e, d.i + 1, 0, 0) IN
               IF At(e, d2.i) # cGT THEN Err("syn")
               ELSE Rep(d2.i + 1, d.v, IF d2.n = 0 THEN INF ELSE d2.v)
            ELSE Err("syn")
     ELSE Err("syn")
  ELSE
     LET r == Literal(e, i, <<>>) IN
     IF r.st # "ok" THEN r
     ELSE IF r.s = <<>> THEN Err("syn")
     ELSE Cont(Leaf([k |-> "lit", s |-> r.s, ci |-> ci], r.i))

Branches(e, i, ci, bs) ==
  LET br == Concat(e, i, ci, {cCOM, cRC}, <<>>) IN
  IF br.st # "ok" THEN br
  ELSE IF br.toks = <<>> THEN Err("syn")
  ELSE IF At(e, br.i) = cCOM THEN Branches(e, br.i + 1, br.ci, Append(bs, br.toks))
  ELSE IF At(e, br.i) = cRC THEN [st |-> "ok", i |-> br.i + 1, ci |-> br.ci, bs |-> Append(bs, br.toks)]
  ELSE Err("syn")

Parse(e) ==
  IF e = <<>> THEN [st |-> "ok", toks |-> <<>>]
  ELSE LET r == Concat(e, 1, FALSE, {}, <<>>) IN
       IF r.st # "ok" THEN r
       ELSE IF r.i # Len(e) + 1 \/ r.toks = <<>> THEN Err("syn")
       ELSE [st |-> "ok", toks |-> r.toks]

(* ---- tokens without positions (what matching and the rules look at) ---- *)
RECURSIVE Strip(_)
Strip(s) ==
  [j \in 1..Len(s) |->
     LET t == s[j] IN
     CASE t.k = "lit"   -> [k |-> "lit", s |-> t.s, ci |-> t.ci]
       [] t.k = "sep"   -> [k |-> "sep"]
       [] t.k = "one"   -> [k |-> "one"]
       [] t.k = "zom"   -> [k |-> "zom", lazy |-> t.lazy]
       [] t.k = "class" -> [k |-> "class", neg |-> t.neg, items |-> t.items]
       [] t.k = "tree"  -> [k |-> "tree", lead |-> t.lead, trail |-> t.trail]
       [] t.k = "alt"   -> [k |-> "alt", bs |-> [x \in 1..Len(t.bs) |-> Strip(t.bs[x])]]
       [] t.k = "rep"   -> [k |-> "rep", bd |-> Strip(t.bd), lo |-> t.lo, hi |-> t.hi]]

Capturing(t) == t.k \in {"one", "zom", "class", "tree", "alt", "rep"}

(* ---- printing stripped token sequences back to text (for derived expressions) ---- *)
RECURSIVE Dec(_)
Dec(n) == IF n < 10 THEN <<48 + n>> ELSE Dec(n \div 10) \o <<48 + (n % 10)>>

RECURSIVE PrintLit(_), PrintItems(_), PrintSeq(_, _), PrintBranches(_, _)
PrintLit(s) ==
  IF s = <<>> THEN <<>>
  ELSE (IF Head(s) \in META THEN <<cBS, Head(s)>> ELSE <<Head(s)>>) \o PrintLit(Tail(s))
ClassEsc(c) == IF c \in {cLB, cRB, cDASH} THEN <<cBS, c>> ELSE <<c>>
PrintItems(items) ==
  IF items = <<>> THEN <<>>
  ELSE LET x == Head(items) IN
       (IF x[1] = x[2] THEN ClassEsc(x[1]) ELSE ClassEsc(x[1]) \o <<cDASH>> \o ClassEsc(x[2]))
       \o PrintItems(Tail(items))
FlagText(ci) == IF ci THEN <<cLP, cQ, cI, cRP>> ELSE <<cLP, cQ, cDASH, cI, cRP>>
(* ci = case flag in force before the sequence; returns [text, ci] *)
PrintSeq(s, ci) ==
  IF s = <<>> THEN [text |-> <<>>, ci |-> ci]
  ELSE LET t == Head(s)
           one == CASE t.k = "lit" ->
                         [text |-> (IF t.ci # ci THEN FlagText(t.ci) ELSE <<>>) \o PrintLit(t.s), ci |-> t.ci]
                    [] t.k = "sep" -> [text |-> <<cSEP>>, ci |-> ci]
                    [] t.k = "one" -> [text |-> <<cQ>>, ci |-> ci]
                    [] t.k = "zom" -> [text |-> <<IF t.lazy THEN cDOL ELSE cSTAR>>, ci |-> ci]
                    [] t.k = "class" ->
                         [text |-> <<cLB>> \o (IF t.neg THEN <<cBANG>> ELSE <<>>) \o PrintItems(t.items) \o <<cRB>>,
                          ci |-> ci]
                    [] t.k = "tree" ->
                         [text |-> (IF t.lead THEN <<cSEP>> ELSE <<>>) \o <<cSTAR, cSTAR>>
                                   \o (IF t.trail THEN <<cSEP>> ELSE <<>>), ci |-> ci]
                    [] t.k = "alt" ->
                         LET r == PrintBranches(t.bs, ci) IN [text |-> <<cLC>> \o r.text \o <<cRC>>, ci |-> r.ci]
                    [] t.k = "rep" ->
                         LET r == PrintSeq(t.bd, ci)
                             bounds == IF t.lo = 0 /\ t.hi = INF THEN <<>>
                                       ELSE IF t.hi = INF THEN <<cCOL>> \o Dec(t.lo) \o <<cCOM>>
                                       ELSE IF t.lo = t.hi THEN <<cCOL>> \o Dec(t.lo)
                                       ELSE <<cCOL>> \o Dec(t.lo) \o <<cCOM>> \o Dec(t.hi) IN
                         [text |-> <<cLT>> \o r.text \o bounds \o <<cGT>>, ci |-> r.ci]
           rest == PrintSeq(Tail(s), one.ci) IN
       [text |-> one.text \o rest.text, ci |-> rest.ci]
PrintBranches(bs, ci) ==
  IF bs = <<>> THEN [text |-> <<>>, ci |-> ci]
  ELSE LET r == PrintSeq(Head(bs), ci) IN
       IF Len(bs) = 1 THEN r
       ELSE LET rest == PrintBranches(Tail(bs), r.ci) IN
            [text |-> r.text \o <<cCOM>> \o rest.text, ci |-> rest.ci]

Unparse(T) == PrintSeq(T, FALSE).text

(* A derived token sequence is usable only if its text reads back to itself: textual   *)
(* neighbours can change meaning ("*" next to "*" is a tree wildcard, a leading "/**"   *)
(* roots).                                                                             *)
Printable(T) ==
  LET p == Parse(Unparse(T)) IN p.st = "ok" /\ Strip(p.toks) = T
=============================================================================
