----------------------------- MODULE GlobCapture -----------------------------
(***************************************************************************)
(* C04: what a capture vector must look like.                              *)
(*                                                                         *)
(* ValidCaptures(T, path, caps): there is a segmentation                   *)
(*     0 = p0 <= p1 <= ... <= pk = Len(path)                               *)
(* of the path by the k top-level tokens such that token i matches its     *)
(* segment in context (the liberal reading of GlobMatch, run on the        *)
(* segment with the absolute start / end information), capture 0 is the    *)
(* whole path, the j-th capturing token's capture is its segment - for a   *)
(* tree wildcard its segment with the absorbed leading separator           *)
(* optionally removed, or absent/empty when the segment is empty or a lone *)
(* separator - and the index after the last capturing token is absent.     *)
(* Greediness is not constrained (C04 does not state it): any segmentation *)
(* explains the observation.  A capture is [some |-> BOOLEAN, s |-> text]. *)
(***************************************************************************)
EXTENDS GlobMatch

(* does the single tagged token t match path[a+1..b] (0-based cut points a <= b) in context *)
(* strict = FALSE: the documented (liberal) reading; strict = TRUE: exits of a tree wildcard decided by its *)
(* tags (used with the implementation-shaped tags of KnownFindings for attribution only)                  *)
RECURSIVE RunSeg(_, _, _, _, _)
RunSeg(cfg, seg, atStart, mode, strict) ==
  IF seg = <<>> THEN \E s \in cfg : NullSeq(s, atStart, mode, strict)
  ELSE RunSeg(Step(cfg, Head(seg), atStart, strict), Tail(seg), FALSE, mode, strict)

MatchesSpanS(t, path, a, b, strict) ==
  RunSeg({<<t>>}, SubSeq(path, a + 1, b), a = 0, IF b = Len(path) THEN "end" ELSE "mid", strict)
MatchesSpan(t, path, a, b) == MatchesSpanS(t, path, a, b, FALSE)

CapOK(t, seg, c) ==
  IF t.k = "tree"
  THEN \/ c.some /\ c.s = seg
       \/ c.some /\ seg # <<>> /\ Head(seg) = cSEP /\ c.s = Tail(seg)
       \/ seg \in {<<>>, <<cSEP>>} /\ (~c.some \/ c.s = <<>>)
  ELSE c.some /\ c.s = seg

(* TT: tagged top-level token sequence; caps: 1-based, caps[1] is capture 0 *)
RECURSIVE Segment(_, _, _, _, _, _, _)
Segment(TT, path, caps, j, a, ci, strict) ==   \* ci: index in caps of the next capturing token's capture
  IF j > Len(TT) THEN a = Len(path)
  ELSE \E b \in a..Len(path) :
         /\ MatchesSpanS(TT[j], path, a, b, strict)
         /\ IF Capturing(TT[j])
            THEN CapOK(TT[j], SubSeq(path, a + 1, b), caps[ci]) /\ Segment(TT, path, caps, j + 1, b, ci + 1, strict)
            ELSE Segment(TT, path, caps, j + 1, b, ci, strict)

NCap(TT) == Len(SelectSeq(TT, Capturing))

(* "ok" or the name of the first clause that fails *)
CaptureVerdictS(TT, path, caps, strict) ==
  IF Len(caps) # NCap(TT) + 2 THEN "count"
  ELSE IF ~(caps[1].some /\ caps[1].s = path) THEN "capture0_is_not_the_path"
  ELSE IF caps[Len(caps)].some THEN "capture_beyond_last_index"
  ELSE IF TT = <<>> THEN (IF path = <<>> THEN "ok" ELSE "empty_glob_nonempty_path")
  ELSE IF Segment(TT, path, caps, 1, 0, 2, strict) THEN "ok" ELSE "no_segmentation_explains_captures"
CaptureVerdict(TT, path, caps) == CaptureVerdictS(TT, path, caps, FALSE)
=============================================================================
