----------------------------- MODULE EscapeCheck -----------------------------
(***************************************************************************)
(* C18: escaping turns any text (no backslash, no two adjacent             *)
(* separators) into a glob that matches exactly that text.                 *)
(*  - theorem of the specification, checked on every case: the reader      *)
(*    reads Escape(s) as a sequence of literals and separators whose text  *)
(*    is s (EscapeReadsBack);                                              *)
(*  - the real escape(s) equals the specification's; every character's     *)
(*    is_meta_character equals membership in the reader's set of           *)
(*    meta-characters; strings without meta-characters are unchanged;      *)
(*  - the glob built from it reports invariant text s, and TLC explores    *)
(*    the product of its compiled automaton with the text monitor: the     *)
(*    language is exactly {s}.                                             *)
(***************************************************************************)
EXTENDS GlobSyntax, GlobQuery, Json, IOUtils

Obs == ndJsonDeserialize(IOEnv.OBS)

RECURSIVE Escape(_)
Escape(s) == IF s = <<>> THEN <<>>
             ELSE (IF Head(s) \in META THEN <<cBS, Head(s)>> ELSE <<Head(s)>>) \o Escape(Tail(s))

(* text spelled by a sequence of literal and separator tokens; <<0>> if anything else occurs *)
RECURSIVE Spelled(_)
Spelled(toks) ==
  IF toks = <<>> THEN <<>>
  ELSE LET t == Head(toks)  r == Spelled(Tail(toks)) IN
       IF r = <<0>> THEN r
       ELSE IF t.k = "lit" THEN t.s \o r
       ELSE IF t.k = "sep" THEN <<cSEP>> \o r
       ELSE <<0>>

VARIABLES case, st, impl, pos, path
vars == <<case, st, impl, pos, path>>

Init == case \in 1..Len(Obs) /\ st = "new" /\ impl = 1 /\ pos = 0 /\ path = <<>>

Runnable(o) == o.outcome = "ok" /\ o.qpanic = "" /\ o.dfa.ok
Load == /\ st = "new"
        /\ st' = IF Runnable(Obs[case]) THEN "run" ELSE "norun"
        /\ UNCHANGED <<case, impl, pos, path>>
Read == /\ st = "run"
        /\ \E j \in DOMAIN Obs[case].sigma :
             LET c == Obs[case].sigma[j] IN
             /\ impl' = Obs[case].dfa.delta[impl][j]
             /\ pos' = TextStep(pos, Obs[case].s, c)
             /\ path' = Append(path, c)
        /\ UNCHANGED <<case, st>>
Next == Load \/ Read
Spec == Init /\ [][Next]_vars
View == <<case, st, impl, pos>>

Report(r) == PrintT(ToJson(r))
Dis(what) == Report([t |-> "DISAGREE", prop |-> "C18", what |-> what, id |-> Obs[case].id, path |-> path])

(* evaluated once per case, after loading *)
Clauses ==
  (st \in {"run", "norun"} /\ path = <<>>) =>
    LET o == Obs[case]  s == o.s  p == Parse(Escape(s)) IN
    /\ (p.st = "ok" /\ Spelled(p.toks) = s) \/ Report([t |-> "SPEC", what |-> "escape_does_not_read_back", id |-> o.id])
    /\ (o.outcome # "panic") \/ Dis("panic")
    /\ (o.outcome = "panic" \/
         /\ (o.escaped = Escape(s)) \/ Dis("escape_differs_from_specification")
         /\ (\A i \in DOMAIN s : o.meta[i] = (s[i] \in META)) \/ Dis("is_meta_character_differs_from_reader")
         /\ ((\A i \in DOMAIN s : s[i] \notin META) => o.escaped = s) \/ Dis("text_without_meta_characters_changed")
         /\ (o.outcome = "ok") \/ Dis("escaped_text_does_not_build")
         /\ (o.outcome = "ok" /\ o.qpanic = "" => o.q.has_text /\ o.q.text = s) \/ Dis("escaped_glob_text_is_not_the_text")
         /\ (o.outcome = "ok" => o.is_match_s) \/ Dis("escaped_glob_does_not_match_the_text"))
    /\ Report([t |-> "IN", id |-> o.id])

OnlyTheText ==
  st = "run" =>
    /\ (Obs[case].dfa.acc[impl] => pos = Len(Obs[case].s)) \/ Dis("matches_other_than_text")
    /\ (pos = Len(Obs[case].s) => Obs[case].dfa.acc[impl]) \/ Dis("text_not_matched")
=============================================================================
