------------------------------- MODULE WalkMC -------------------------------
(***************************************************************************)
(* Exhaustive model checking of Walk.tla: every file tree up to MaxN       *)
(* nodes (every parent function, every assignment of kinds), every table   *)
(* of verdicts for NLayers filter layers, optionally links (to every       *)
(* target, dangling included) with both link policies, unreadable          *)
(* directories, depth bounds, and a glob layer with every pair of tables   *)
(* that satisfies ComponentSound - and every sibling order.                *)
(***************************************************************************)
EXTENDS Walk, Json

CONSTANTS MaxN, NLayers, WithLinks, WithFaults, WithGlob, WithDepths

Ns == 1..MaxN
(* walkdir-level bounds <<min, max>>; 100 stands for no maximum *)
Depths == IF WithDepths THEN {<<a, b>> : a \in 0..2, b \in {0, 1, 2, 100}} \ {<<2, 0>>, <<2, 1>>, <<1, 0>>} ELSE {<<0, 100>>}
Parents(n) == {p \in [2..n -> 1..n] : \A i \in 2..n : p[i] < i}
KindsOf(n) == [1..n -> IF WithLinks THEN {"dir", "file", "link"} ELSE {"dir", "file"}]
(* only directories have children; node 1 is a directory *)
WellKinded(n, p, k) == k[1] = "dir" /\ \A i \in 2..n : k[p[i]] = "dir"
Targets(n, k) == {t \in [1..n -> 0..n] : \A i \in 1..n :
                    IF k[i] = "link" THEN (t[i] = 0 \/ (t[i] # i /\ k[t[i]] # "link")) ELSE t[i] = 0}
Readables(n, k) == IF WithFaults
                   THEN {r \in [1..n -> BOOLEAN] : \A i \in 1..n : (k[i] # "dir" => r[i]) /\ (i = 1 => r[i])}
                   ELSE {[i \in 1..n |-> TRUE]}
VerdictTables(n) == [1..NLayers -> [1..n -> {"keep", "file", "tree"}]]
GlobTables(n) == IF WithGlob
                 THEN {g \in [comp : [1..n -> {"prune", "short", "check"}], match : [1..n -> BOOLEAN]] :
                         \A i \in 1..n : g.match[i] => g.comp[i] = "check"}
                 ELSE {[comp |-> [i \in 1..n |-> "check"], match |-> [i \in 1..n |-> TRUE]]}

MCInit ==
  \E n \in Ns : \E p \in Parents(n) : \E k \in KindsOf(n) :
    /\ WellKinded(n, p, k)
    /\ \E t \in Targets(n, k) : \E r \in Readables(n, k) : \E f \in (IF WithLinks THEN BOOLEAN ELSE {FALSE}) :
       \E d \in Depths : \E g \in GlobTables(n) : \E ls \in VerdictTables(n) :
         InitWith([bypos |-> FALSE, root |-> 1, n |-> n, parent |-> p, kind |-> k, target |-> t, readable |-> r, follow |-> f,
                   min |-> d[1], max |-> d[2], glob |-> WithGlob, comp |-> g.comp, match |-> g.match,
                   layers |-> [i \in 1..NLayers |-> ls[i]]])

MCSpec == MCInit /\ [][Next]_vars /\ WF_vars(Next)

(* scenario export (spec -> implementation): every initial state is printed as JSON so that the *)
(* harness can execute the same scenario on a real file system                                  *)
OnlyInitial == ~started
EmitScenario == ~started => PrintT(ToJson([t |-> "SCENARIO", sc |-> sc]))

(* with a glob layer, only tables that satisfy ComponentSound are of interest *)
GlobConstraint == sc.glob => ComponentSoundTables
=============================================================================
