------------------------------- MODULE GenRel -------------------------------
(***************************************************************************)
(* C07: families of expressions related by the composition laws, derived   *)
(* on token trees (never on text) and kept only when every derived tree    *)
(* prints to a text that reads back to the same tree.                      *)
(*                                                                         *)
(*  alt   an alternation at any position and depth  =  union over its      *)
(*        branches of the expression with the branch spliced in its place  *)
(*  rep   a repetition <e:lo,hi> with finite hi <= 3  =  union over        *)
(*        k in lo..hi of the expression with e written k times; with no    *)
(*        upper bound: every k in lo..lo+2 is included in it ("sub")       *)
(*  wrap  a token  =  the same token in single-branch braces               *)
(*  once  a token  =  the same token in a once-only repetition             *)
(*                                                                         *)
(* Input: CASES (ndjson of case records with field e).  Output: one RELATION *)
(* record per law instance, texts as code point sequences.                 *)
(***************************************************************************)
EXTENDS GlobSyntax, Json, IOUtils

Cases == ndJsonDeserialize(IOEnv.CASES)

(* adjacent literals with the same case flag are one literal in the text *)
RECURSIVE Norm(_)
Norm(s) ==
  IF s = <<>> THEN <<>>
  ELSE LET t == Head(s)
           h == CASE t.k = "alt" -> [t EXCEPT !.bs = [x \in DOMAIN t.bs |-> Norm(t.bs[x])]]
                  [] t.k = "rep" -> [t EXCEPT !.bd = Norm(t.bd)]
                  [] OTHER -> t
           r == Norm(Tail(s)) IN
       IF h.k = "lit" /\ r # <<>> /\ r[1].k = "lit" /\ r[1].ci = h.ci
       THEN <<[h EXCEPT !.s = h.s \o r[1].s]>> \o Tail(r)
       ELSE <<h>> \o r

Usable(T) == LET p == Parse(Unparse(T)) IN p.st = "ok" /\ Strip(p.toks) = Norm(T)

RECURSIVE HasTree(_)
HasTree(s) == \E j \in DOMAIN s :
   \/ s[j].k = "tree"
   \/ s[j].k = "alt" /\ \E x \in DOMAIN s[j].bs : HasTree(s[j].bs[x])
   \/ s[j].k = "rep" /\ HasTree(s[j].bd)

RECURSIVE Power(_, _)
Power(s, k) == IF k = 0 THEN <<>> ELSE s \o Power(s, k - 1)

Ctx(s, j, mid) == SubSeq(s, 1, j - 1) \o mid \o SubSeq(s, j + 1, Len(s))

(* all law instances at and below the sequence s: records [law, mode, members] where members *)
(* are whole replacements for s                                                              *)
RECURSIVE Rels(_)
Rels(s) ==
  UNION {
    LET t == s[j]
        (* signature of KF21: the body may be written zero times and a tree wildcard is next to it *)
        zt == t.k = "rep" /\ t.lo = 0
              /\ ((j > 1 /\ s[j - 1].k = "tree") \/ (j < Len(s) /\ s[j + 1].k = "tree"))
        (* signature of KF20: the repetition that is written out contains a tree wildcard *)
        tr == t.k = "rep" /\ HasTree(t.bd) IN
    (* laws at this token *)
    (CASE t.k = "alt" ->
            {[law |-> "alt", mode |-> "eq", zt |-> FALSE, tr |-> FALSE, members |-> [x \in DOMAIN t.bs |-> Ctx(s, j, t.bs[x])]]}
       [] t.k = "rep" ->
            IF t.hi # INF /\ t.hi <= 3 /\ t.lo <= t.hi
            THEN {[law |-> "rep", mode |-> "eq", zt |-> zt, tr |-> tr,
                   members |-> [i \in 1..(t.hi - t.lo + 1) |-> Ctx(s, j, Power(t.bd, t.lo + i - 1))]]}
            ELSE IF t.hi = INF /\ t.lo <= 2
            THEN {[law |-> "rep", mode |-> "sub", zt |-> zt, tr |-> tr,
                   members |-> [i \in 1..3 |-> Ctx(s, j, Power(t.bd, t.lo + i - 1))]]}
            ELSE {}
       [] OTHER -> {})
    \cup {[law |-> "wrap", mode |-> "eq", zt |-> FALSE, tr |-> FALSE, members |-> <<Ctx(s, j, <<[k |-> "alt", bs |-> <<<<t>>>>]>>)>>],
          [law |-> "once", mode |-> "eq", zt |-> FALSE, tr |-> FALSE,
           members |-> <<Ctx(s, j, <<[k |-> "rep", bd |-> <<t>>, lo |-> 1, hi |-> 1]>>)>>]}
    (* laws below this token, lifted through it *)
    \cup (CASE t.k = "alt" ->
                 UNION {{[r EXCEPT !.members = [i \in DOMAIN r.members |->
                                                  Ctx(s, j, <<[t EXCEPT !.bs[x] = r.members[i]]>>)]]
                         : r \in Rels(t.bs[x])} : x \in DOMAIN t.bs}
            [] t.k = "rep" ->
                 (* a union law does not survive iteration (<{a,b}:2> matches ab, <a:2> and <b:2> do *)
                 (* not): through a body that may repeat only the inclusions remain                  *)
                 {[r EXCEPT !.members = [i \in DOMAIN r.members |-> Ctx(s, j, <<[t EXCEPT !.bd = r.members[i]]>>)],
                            !.mode = IF t.hi > 1 /\ r.law \in {"alt", "rep"} THEN "sub" ELSE r.mode]
                  : r \in Rels(t.bd)}
            [] OTHER -> {})
    : j \in DOMAIN s }

VARIABLES case, st
vars == <<case, st>>
Init == case \in 1..Len(Cases) /\ st = "new"
Next == st = "new" /\ st' = "done" /\ UNCHANGED case

Emit ==
  st = "done" =>
    LET p == Parse(Cases[case].e) IN
    p.st = "ok" =>
      LET T == Strip(p.toks) IN
      \A r \in Rels(T) :
        LET ok == [i \in DOMAIN r.members |-> Usable(r.members[i])] IN
        (* "eq" needs every member; "sub" keeps the usable ones *)
        IF r.mode = "eq" /\ \E i \in DOMAIN ok : ~ok[i] THEN TRUE
        ELSE LET keep == SelectSeq([i \in DOMAIN r.members |-> [ok |-> ok[i], text |-> Unparse(r.members[i])]],
                                    LAMBDA m : m.ok) IN
             keep = <<>> \/
             PrintT(ToJson([t |-> "RELATION", law |-> r.law, mode |-> r.mode, zt |-> r.zt, tr |-> r.tr, orig |-> Cases[case].e,
                            members |-> [i \in DOMAIN keep |-> keep[i].text]]))
=============================================================================
