------------------------- MODULE KnownFindingsRules -------------------------
(***************************************************************************)
(* Named deviations of the pinned rule checker (src/rule.rs) and reader    *)
(* (src/token/parse.rs) from the documented rules, as exact switches of    *)
(* GlobRules (DESIGN.md section 7):                                        *)
(*  "rep_leaf_only"   adjacency between consecutive copies of a repetition *)
(*                    body is only seen when the body's first and last     *)
(*                    tokens are themselves boundary leaves, not through a *)
(*                    branch (KF23: a<{/}:1,2> builds);                    *)
(*  "rule5_leaf_only" an alternation branch / optional repetition is only  *)
(*                    seen to root the expression when its first token is  *)
(*                    a separator or rooted tree wildcard leaf, not        *)
(*                    through a nested repetition (KF24: {</a:1,2>}).      *)
(* FlagBeforeLeadingTree is the signature of KF09: flags in front of a     *)
(* tree wildcard that begins a sub-expression make the parser's            *)
(* "beginning of expression" test fail ((?i)**/a is a parse error).        *)
(***************************************************************************)
EXTENDS GlobRules

IsLeaf(t) == t.k \notin {"alt", "rep"}

RECURSIVE AdjDev(_, _, _)
AdjDev(s, k, devs) ==
  \/ \E j \in 1..(Len(s) - 1) : k \in LastsTok(s[j]) /\ k \in FirstsTok(s[j + 1])
  \/ \E j \in DOMAIN s :
       LET t == s[j] IN
       \/ t.k = "alt" /\ \E x \in DOMAIN t.bs : AdjDev(t.bs[x], k, devs)
       \/ t.k = "rep" /\ ( \/ AdjDev(t.bd, k, devs)
                           \/ /\ k = "B" /\ t.hi > 1
                              /\ "B" \in Lasts(t.bd) /\ "B" \in Firsts(t.bd)
                              /\ ("rep_leaf_only" \in devs => IsLeaf(t.bd[1]) /\ IsLeaf(t.bd[Len(t.bd)])) )

RECURSIVE RootedBranchDev(_)
RootedBranchDev(s) ==
  /\ s # <<>>
  /\ LET t == s[1] IN
     \/ t.k = "alt" /\ \E x \in DOMAIN t.bs : Rooting(t.bs[x][1]) \/ RootedBranchDev(t.bs[x])
     \/ t.k = "rep" /\ ((t.lo = 0 /\ Rooting(t.bd[1])) \/ RootedBranchDev(t.bd))

ViolationsDev(T, devs) ==
     (IF T # <<>> /\ AdjDev(T, "B", devs) THEN {"adjacent_boundary"} ELSE {})
  \cup (IF T # <<>> /\ AdjDev(T, "Z", devs) THEN {"adjacent_zom"} ELSE {})
  \cup (CommonViolations(T) \ (IF "rule5_leaf_only" \in devs THEN {"rooted_branch"} ELSE {}))
  \cup (IF "rule5_leaf_only" \in devs /\ RootedBranchDev(T) THEN {"rooted_branch"} ELSE {})

RECURSIVE FlagBeforeLeadingTree(_)
FlagBeforeLeadingTree(toks) == \E j \in DOMAIN toks :
   LET t == toks[j] IN
   \/ t.k = "tree" /\ ~t.lead /\ t.a < t.f
   \/ t.k = "alt" /\ \E x \in DOMAIN t.bs : FlagBeforeLeadingTree(t.bs[x])
   \/ t.k = "rep" /\ FlagBeforeLeadingTree(t.bd)
=============================================================================
