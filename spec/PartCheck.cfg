INIT Init
NEXT Next
VIEW View
INVARIANT PartitionSound
INVARIANT Clauses
CHECK_DEADLOCK FALSE
