---------------------------- MODULE PathAlgCheck ----------------------------
(***************************************************************************)
(* Binds PathAlg to std::path and checks its laws.                         *)
(*                                                                         *)
(* MODE = "gen": TLC writes every byte string up to MAXLEN over the        *)
(* alphabet `/ . a` (OUT).  `wv pathalg` evaluates the real std::path on   *)
(* every ordered pair of them.                                             *)
(* MODE = "check": one record per pair (OBS): the model must agree with    *)
(* std on every operator (components, equality, join, starts_with,         *)
(* strip_prefix) and the laws of PathAlg must hold.  A disagreement is an  *)
(* error of the model, not of wax: it is reported as MODEL.                *)
(***************************************************************************)
EXTENDS PathAlg, TLC, Json, IOUtils, FiniteSets

Alphabet == {SEPB, DOTB, 97}
MaxLen == IF "MAXLEN" \in DOMAIN IOEnv THEN atoi(IOEnv.MAXLEN) ELSE 4

RECURSIVE Strings(_)
Strings(n) == IF n = 0 THEN {<<>>} ELSE LET S == Strings(n - 1) IN S \cup {Append(s, c) : s \in {x \in S : Len(x) = n - 1}, c \in Alphabet}

RECURSIVE SetToSeq(_)
SetToSeq(S) == IF S = {} THEN <<>> ELSE LET x == CHOOSE x \in S : TRUE IN <<x>> \o SetToSeq(S \ {x})

Gen == IF IOEnv.MODE = "gen"
       THEN ndJsonSerialize(IOEnv.OUT, [i \in 1..Cardinality(Strings(MaxLen)) |-> [s |-> SetToSeq(Strings(MaxLen))[i]]])
       ELSE TRUE
ASSUME Gen

Obs == IF IOEnv.MODE = "check" THEN ndJsonDeserialize(IOEnv.OBS) ELSE <<>>

VARIABLES case, st
vars == <<case, st>>
Init == case \in 1..Len(Obs) /\ st = "new"
Next == st = "new" /\ st' = "done" /\ UNCHANGED case
Spec == Init /\ [][Next]_vars

O == Obs[case]
Report(r) == PrintT(ToJson(r))
Bad(what) == Report([t |-> "MODEL", what |-> what, rec |-> case, a |-> O.a, b |-> O.b])

Agrees ==
  st = "done" =>
    /\ Comps(O.a) = O.comps_a \/ Bad("components")
    /\ IsAbs(O.a) = O.abs_a \/ Bad("is_absolute")
    /\ Join(O.a, O.b) = O.join \/ Bad("join")
    /\ PathEq(O.a, O.b) = O.eq \/ Bad("equality")
    /\ StartsWith(O.a, O.b) = O.starts \/ Bad("starts_with")
    /\ (O.starts => Rest(O.a, O.b) = O.rest) \/ Bad("strip_prefix")
    /\ JoinLaw(O.a, O.b) \/ Bad("law_join")
    /\ JoinDepthLaw(O.a, O.b) \/ Bad("law_join_depth")
    /\ StripLaw(O.a, O.b) \/ Bad("law_strip")
=============================================================================
