INIT Init
NEXT Next
VIEW View
CONSTRAINT OnlyLoaded
INVARIANT ImplExact
CHECK_DEADLOCK FALSE
