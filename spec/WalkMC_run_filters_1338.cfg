CONSTANTS
  Dev = {}
  Scenarios = {}
  MaxN = 3
  NLayers = 2
  WithLinks = FALSE
  WithFaults = FALSE
  WithGlob = FALSE
  WithDepths = FALSE
INIT MCInit
NEXT Next
INVARIANT NothingBeneathDiscarded
INVARIANT CancelOnce
INVARIANT CancelPopsOwnFrame
INVARIANT Final
INVARIANT SameAsEntryFilter
PROPERTY Monotone
CHECK_DEADLOCK FALSE
