INIT Init
NEXT Next
INVARIANT Total
CHECK_DEADLOCK FALSE
