INIT Init
NEXT Next
INVARIANT Agrees
CHECK_DEADLOCK FALSE
