INIT TInit
NEXT TNext
INVARIANT OwnContexts
INVARIANT NoRejection
INVARIANT EndsTogether
INVARIANT MachineSound
CHECK_DEADLOCK FALSE
