-------------------------------- MODULE Walk --------------------------------
(***************************************************************************)
(* The directory walker of wax as an explicit transition system: walkdir's *)
(* stack of open directories, the is_dir flag of WalkTree (kind of the     *)
(* most recently yielded entry), the per-entry separation                  *)
(*     F (filtrate)  <  N (node residue)  <  T (tree residue),             *)
(* the glob layer, a stack of filter layers (`not` / `filter_entry`) and   *)
(* cancellation (= pop the directory stack).  One action per critical      *)
(* section of the code:                                                    *)
(*   Yield        WalkTree::next  (walkdir IntoIter::next + handle_entry)  *)
(*   GlobLayer    the closure in GlobWalker::walk_with_behavior            *)
(*   FilterLayer  Not::feed / FilterEntry::feed                            *)
(*                (Separation::filter_tree_by_substituent)                 *)
(*   Cancel       WalkTree::cancel_walk_tree (inlined where it is called)  *)
(*   Emit         filter::filtrate                                         *)
(*                                                                         *)
(* A scenario sc fixes the file tree (nodes 1..N, node 1 is the walked     *)
(* directory unless sc.root says otherwise), link policy, depth bounds, an optional glob layer (per-node *)
(* verdict tables) and the filter layers (per-node verdicts).  Sibling     *)
(* order is nondeterministic (read_dir order is arbitrary).                *)
(*                                                                         *)
(* A position is the sequence of nodes from node 1 to an entry (a followed *)
(* link continues with the children of its target), so the same directory  *)
(* reached through a link is a different position.                         *)
(*                                                                         *)
(* Dev: set of named deviations of the pinned code switched on (none on    *)
(* the repaired tree).  "TreeFromFiltrateIsNode" is the defect repaired by *)
(* the fix: commit for C13/C16 (a filtrate discarded as a tree became node *)
(* residue, so a second layer cancelled again).                            *)
(***************************************************************************)
EXTENDS Naturals, Sequences, FiniteSets, TLC

CONSTANTS Dev,        \* deviations switched on
          Scenarios   \* the set of scenarios Init chooses from

VARIABLES sc,         \* the scenario (constant during a behaviour)
          stack,      \* walkdir's stack_list: frames [at, pending, err]
          started,    \* the root has been handled
          lastIsDir,  \* WalkTree::is_dir
          cur,        \* entry in flight: [pos, isdir, err] or NoEntry
          sep,        \* its separation: "F" | "N" | "T"
          layer,      \* next layer to process cur: 0 = glob layer, 1..L filters, L+1 = emit
          seen,       \* history: seen[i] = sequence of [pos, in] observed by filter layer i
          out,        \* history: sequence of emitted items [pos, err]
          cancels,    \* history: number of effective cancellations for the entry in flight
          done

vars == <<sc, stack, started, lastIsDir, cur, sep, layer, seen, out, cancels, done>>

NoEntry == [pos |-> <<>>, isdir |-> FALSE, err |-> "none"]

(* ---- verdict tables: by node (model checking) or by position (recorded traces: sc.bypos) ---- *)
Last(s) == s[Len(s)]
TableAt(f, pos, default) ==
  IF sc.bypos THEN (IF pos \in DOMAIN f THEN f[pos] ELSE default) ELSE f[Last(pos)]
LV(i, pos) == TableAt(sc.layers[i], pos, "keep")
CompAt(pos) == TableAt(sc.comp, pos, "check")
MatchAt(pos) == TableAt(sc.match, pos, FALSE)

(* ---- the file tree of a scenario ---- *)
Nodes == 1..sc.n
Children(n) == {c \in 2..sc.n : sc.parent[c] = n}
(* the directory whose children an entry at node n exposes when it is descended into *)
Resolve(n) == IF sc.kind[n] = "link" /\ sc.follow THEN sc.target[n] ELSE n
IsDirNode(n) == n # 0 /\ sc.kind[n] = "dir"
L == Len(sc.layers)
Depth(pos) == Len(pos) - 1

(* a node beneath an unreadable directory cannot be reached by the absolute path a link holds *)
RECURSIVE BeneathUnreadable(_)
BeneathUnreadable(n) ==
  n # 1 /\ LET p == sc.parent[n] IN ~sc.readable[p] \/ BeneathUnreadable(p)

(* what handle_entry makes of the entry at position pos *)
(* kind: "dir" (pushed, is_dir), "file" (entry, not a directory), "err" (error item)          *)
Classify(pos) ==
  LET n == Last(pos) IN
  IF sc.kind[n] = "link" /\ sc.follow THEN
     IF sc.target[n] = 0 THEN [kind |-> "err", err |-> "io"]                     \* dangling
     ELSE IF BeneathUnreadable(sc.target[n]) THEN [kind |-> "err", err |-> "io"]   \* target out of reach
     ELSE IF IsDirNode(sc.target[n]) THEN
        (* walkdir opens the target of a followed link for its loop check: an unreadable target is *)
        (* an error item in place of the entry; a followed link that re-enters a directory on the  *)
        (* way from the root is a loop                                                             *)
        IF ~sc.readable[sc.target[n]] THEN [kind |-> "err", err |-> "io"]
        ELSE IF \E i \in 1..(Len(pos) - 1) : Resolve(pos[i]) = sc.target[n]
        THEN [kind |-> "err", err |-> "loop"]
        ELSE [kind |-> "dir", err |-> "none"]
     ELSE [kind |-> "file", err |-> "none"]
  ELSE IF sc.kind[n] = "dir" THEN [kind |-> "dir", err |-> "none"]
  ELSE [kind |-> "file", err |-> "none"]

(* frame pushed for a directory entry: an unreadable directory yields exactly one error *)
Frame(pos) ==
  LET d == Resolve(Last(pos)) IN
  IF sc.readable[d] THEN [at |-> pos, pending |-> Children(d), err |-> FALSE]
  ELSE [at |-> pos, pending |-> {}, err |-> TRUE]

Skippable(pos) == Depth(pos) < sc.min \/ Depth(pos) > sc.max

InitWith(s) ==
  /\ sc = s
  /\ stack = <<>> /\ started = FALSE /\ lastIsDir = FALSE /\ cur = NoEntry /\ sep = "F" /\ layer = 0
  /\ seen = [i \in 1..Len(s.layers) |-> <<>>] /\ out = <<>> /\ cancels = 0 /\ done = FALSE
Init == \E s \in Scenarios : InitWith(s)

(* ---- Yield: WalkTree::next ---- *)
(* silent part of walkdir's loop: pop frames deeper than max depth and exhausted frames *)
RECURSIVE Settle(_)
Settle(s) ==
  IF s = <<>> THEN s
  ELSE LET top == Last(s) IN
       IF Len(s) > sc.max \/ (top.pending = {} /\ ~top.err) THEN Settle(SubSeq(s, 1, Len(s) - 1)) ELSE s

(* handle_entry on pos with stack s: the new stack and what is yielded (or nothing: skippable) *)
Handle(pos, s) ==
  LET c == Classify(pos) IN
  [stack |-> IF c.kind = "dir" THEN Append(s, Frame(pos)) ELSE s,
   yields |-> c.kind = "err" \/ ~Skippable(pos),
   item |-> [pos |-> pos, isdir |-> (c.kind = "dir"), err |-> c.err]]

Deliver(h) ==
  /\ stack' = h.stack
  /\ IF h.yields
     THEN /\ cur' = h.item /\ lastIsDir' = h.item.isdir
          /\ sep' = "F" /\ cancels' = 0
          /\ layer' = IF h.item.err # "none" THEN L + 1 ELSE IF sc.glob THEN 0 ELSE 1
     ELSE UNCHANGED <<cur, lastIsDir, sep, cancels, layer>>   \* skipped silently; the loop goes on

YieldRoot ==
  /\ ~started /\ cur = NoEntry /\ ~done
  /\ started' = TRUE
  /\ Deliver(Handle(<<sc.root>>, <<>>))
  /\ UNCHANGED <<sc, seen, out, done>>

YieldNext ==
  /\ started /\ cur = NoEntry /\ ~done
  /\ LET s == Settle(stack) IN
     IF s = <<>> THEN
        /\ done' = TRUE /\ stack' = s /\ lastIsDir' = FALSE
        /\ UNCHANGED <<cur, sep, cancels, layer>>
     ELSE LET top == Last(s)  k == Len(s) IN
        /\ done' = FALSE
        /\ \/ /\ top.err      \* the pending read error of an unreadable directory
              /\ stack' = [s EXCEPT ![k].err = FALSE]
              /\ cur' = [pos |-> top.at, isdir |-> FALSE, err |-> "io"] /\ lastIsDir' = FALSE
              /\ sep' = "F" /\ cancels' = 0 /\ layer' = L + 1
           \/ \E c \in top.pending :
                Deliver(Handle(Append(top.at, c), [s EXCEPT ![k].pending = @ \ {c}]))
  /\ UNCHANGED <<sc, started, seen, out>>

(* ---- Cancel: WalkTree::cancel_walk_tree ---- *)
Popped(s) == IF lastIsDir /\ s # <<>> THEN SubSeq(s, 1, Len(s) - 1) ELSE s
Effective(s) == IF lastIsDir /\ s # <<>> THEN 1 ELSE 0

(* ---- GlobLayer ---- *)
(* comp: "prune" some component program rejects its component, "short" the path has fewer     *)
(* components than programs, "check" otherwise; match: the complete program accepts the path  *)
GlobLayer ==
  /\ cur # NoEntry /\ layer = 0
  /\ CASE CompAt(cur.pos) = "prune" -> /\ stack' = Popped(stack) /\ cancels' = cancels + Effective(stack) /\ sep' = "T"
       [] CompAt(cur.pos) = "short" -> /\ sep' = "N" /\ UNCHANGED <<stack, cancels>>
       [] OTHER -> /\ sep' = (IF MatchAt(cur.pos) THEN "F" ELSE "N") /\ UNCHANGED <<stack, cancels>>
  /\ layer' = 1
  /\ UNCHANGED <<sc, started, lastIsDir, cur, seen, out, done>>

(* ---- FilterLayer: Separation::filter_tree_by_substituent ---- *)
FilterLayer ==
  /\ cur # NoEntry /\ layer \in 1..L
  /\ LET v == LV(layer, cur.pos) IN
     /\ seen' = [seen EXCEPT ![layer] = Append(@, [pos |-> cur.pos, in |-> sep])]
     /\ CASE v = "tree" ->
               IF sep = "F" THEN /\ stack' = Popped(stack) /\ cancels' = cancels + Effective(stack)
                                 /\ sep' = (IF "TreeFromFiltrateIsNode" \in Dev THEN "N" ELSE "T")
               ELSE IF sep = "N" THEN /\ stack' = Popped(stack) /\ cancels' = cancels + Effective(stack) /\ sep' = "T"
               ELSE UNCHANGED <<stack, cancels, sep>>
          [] v = "file" -> /\ sep' = (IF sep = "F" THEN "N" ELSE sep) /\ UNCHANGED <<stack, cancels>>
          [] OTHER -> UNCHANGED <<stack, cancels, sep>>
  /\ layer' = layer + 1
  /\ UNCHANGED <<sc, started, lastIsDir, cur, out, done>>

(* ---- Emit: filter::filtrate ---- *)
Emit ==
  /\ cur # NoEntry /\ layer = L + 1
  /\ out' = IF sep = "F" THEN Append(out, [pos |-> cur.pos, err |-> cur.err]) ELSE out
  /\ cur' = NoEntry
  /\ UNCHANGED <<sc, stack, started, lastIsDir, sep, layer, seen, cancels, done>>

Next == YieldRoot \/ YieldNext \/ GlobLayer \/ FilterLayer \/ Emit
Spec == Init /\ [][Next]_vars /\ WF_vars(Next)

(* ======================================================================= *)
(* Declarative reference: what a walk of the scenario must produce.        *)
(* ======================================================================= *)

(* positions the traversal can reach, ignoring filters: below readable directories, within max depth *)
RECURSIVE Below(_)
Below(pos) ==
  LET c == Classify(pos) IN
  {pos} \cup (IF c.kind = "dir" /\ Depth(pos) < sc.max /\ sc.readable[Resolve(Last(pos))]
              THEN UNION {Below(Append(pos, ch)) : ch \in Children(Resolve(Last(pos)))}
              ELSE {})
AllPos == Below(<<sc.root>>)

Kind(pos) == Classify(pos).kind
Prefixes(pos) == {SubSeq(pos, 1, i) : i \in 1..(Len(pos) - 1)}

(* verdict of everything that can discard: the glob layer and the filter layers *)
GlobVerdict(pos) == IF ~sc.glob THEN "keep"
                    ELSE IF CompAt(pos) = "prune" THEN "tree"
                    ELSE IF CompAt(pos) = "short" THEN "file"
                    ELSE IF MatchAt(pos) THEN "keep" ELSE "file"
Verdicts(pos) == {GlobVerdict(pos)} \cup {LV(i, pos) : i \in 1..L}

(* a directory position that something discards as a tree: nothing beneath it may be produced *)
TreeDiscarded(pos) == Kind(pos) = "dir" /\ ~Skippable(pos) /\ "tree" \in Verdicts(pos)
Hidden(pos) == \E p \in Prefixes(pos) : TreeDiscarded(p)
Visible == {pos \in AllPos : ~Hidden(pos)}
(* entries that are yielded at all: not errors, inside the depth bounds *)
Yielded == {pos \in Visible : Kind(pos) # "err" /\ ~Skippable(pos)}
Kept == {pos \in Yielded : Verdicts(pos) = {"keep"}}
(* error items: a dangling or re-entrant link (in place of its entry) and, after its entry, an *)
(* unreadable directory                                                                         *)
Faults == {pos \in Visible : Kind(pos) = "err"}
          \cup {pos \in Visible : Kind(pos) = "dir" /\ ~sc.readable[Resolve(Last(pos))] /\ Depth(pos) < sc.max
                                  /\ ~TreeDiscarded(pos)}

ToSet(s) == {s[i] : i \in DOMAIN s}
OutEntries == {o.pos : o \in {x \in ToSet(out) : x.err = "none"}}
OutErrors  == {o.pos : o \in {x \in ToSet(out) : x.err # "none"}}
SeenPos(i) == {x.pos : x \in ToSet(seen[i])}

(* ---- invariants (safety, every state) ---- *)
(* C13a: nothing beneath a discarded tree is produced to any filter or to the consumer *)
NothingBeneathDiscarded ==
  /\ \A i \in 1..L : \A p \in SeenPos(i) : ~Hidden(p)
  /\ \A o \in ToSet(out) : ~Hidden(o.pos)
  /\ cur # NoEntry => ~Hidden(cur.pos)

(* C16: the separation of the entry in flight only grows; at most one effective cancel per entry *)
Rank(x) == CASE x = "F" -> 0 [] x = "N" -> 1 [] x = "T" -> 2
Monotone == [][(cur' = cur /\ cur # NoEntry) => Rank(sep') >= Rank(sep)]_vars
CancelOnce == cancels <= 1
(* cancellation only ever removes the frame of the entry in flight *)
CancelPopsOwnFrame ==
  (cur # NoEntry /\ cancels = 0 /\ cur.isdir) => (stack # <<>> /\ Last(stack).at = cur.pos)

(* C15: depth bounds; reading links as files never descends into them *)
DepthBounded == \A o \in ToSet(out) : o.err = "none" => ~Skippable(o.pos)
NoDescentThroughLinks ==
  ~sc.follow => \A o \in ToSet(out) : \A i \in 1..(Len(o.pos) - 1) : sc.kind[o.pos[i]] # "link"

(* ---- postconditions (final state) ---- *)
(* C13b C16: exactly the visible entries are seen by every layer, exactly once; the consumer  *)
(* gets exactly the entries every layer keeps (a set that does not depend on the order of the *)
(* layers); C20: one error item per fault, in place, untouched by the layers                   *)
Final ==
  done =>
    /\ OutEntries = Kept
    /\ Cardinality(OutEntries) = Len(SelectSeq(out, LAMBDA o : o.err = "none"))
    /\ \A i \in 1..L : SeenPos(i) = Yielded /\ Len(seen[i]) = Cardinality(Yielded)
    /\ OutErrors = Faults
    /\ Cardinality(OutErrors) = Len(SelectSeq(out, LAMBDA o : o.err # "none"))

(* C02 (model half): with a glob layer whose tables satisfy ComponentSound, pruning loses nothing *)
ComponentSoundTables ==
  \A pos \in AllPos : (MatchAt(pos) /\ CompAt(pos) = "check") =>
                         \A i \in 1..Len(pos) : CompAt(SubSeq(pos, 1, i)) # "prune"
MatchingOnly ==
  (done /\ sc.glob /\ L = 0) =>
     OutEntries = {pos \in AllPos : Kind(pos) # "err" /\ ~Skippable(pos) /\ ~Hidden(pos)
                                    /\ CompAt(pos) = "check" /\ MatchAt(pos)}

(* C03 (model half): if a layer answers "tree" only where it would also discard everything     *)
(* beneath (what NegationSound establishes for the real negation programs), then discarding     *)
(* trees gives exactly the result of filtering each entry individually                          *)
NegationSoundTables ==
  \A i \in 1..L : \A pos \in AllPos :
     (Kind(pos) = "dir" /\ LV(i, pos) = "tree") =>
        \A q \in AllPos : (pos \in Prefixes(q) /\ Kind(q) # "err") => LV(i, q) # "keep"
SameAsEntryFilter ==
  (done /\ ~sc.glob /\ NegationSoundTables) =>
     OutEntries = {pos \in AllPos : Kind(pos) # "err" /\ ~Skippable(pos)
                                    /\ \A i \in 1..L : LV(i, pos) = "keep"}

(* termination: every behaviour ends (no cycle, also with re-entrant links) *)
Terminates == <>done
=============================================================================
