INIT Init
NEXT Next
VIEW View
INVARIANT Laws
CHECK_DEADLOCK FALSE
