------------------------------- MODULE PathAlg -------------------------------
(***************************************************************************)
(* The path algebra that the statements of C02, C08, C14 and C15 are       *)
(* phrased in: a native (Unix) path is a sequence of bytes; its            *)
(* *components* are what `std::path::Path::components` yields; two paths   *)
(* are equal when their components are; joining is `Path::join`.           *)
(*                                                                         *)
(* This module states those notions on byte sequences so that the          *)
(* specification - not the harness - decides the facts about yielded       *)
(* entries (EntryCheck) and about prefixes (PathAlgCheck binds every       *)
(* operator to std exhaustively over short byte strings).                  *)
(*                                                                         *)
(* A component is a byte sequence; the root directory is the component     *)
(* <<47>> ("/"), which no other component can equal; the current directory *)
(* is <<46>> and the parent directory <<46, 46>>, as written.              *)
(***************************************************************************)
EXTENDS Naturals, Sequences

SEPB == 47
DOTB == 46
RootC == <<SEPB>>
CurC == <<DOTB>>
ParC == <<DOTB, DOTB>>

IsAbs(p) == p # <<>> /\ p[1] = SEPB

(* the maximal runs of bytes between separators, empty runs included *)
RECURSIVE PiecesFrom(_, _, _)
PiecesFrom(p, i, cur) ==
  IF i > Len(p) THEN <<cur>>
  ELSE IF p[i] = SEPB THEN <<cur>> \o PiecesFrom(p, i + 1, <<>>)
  ELSE PiecesFrom(p, i + 1, Append(cur, p[i]))
Pieces(p) == IF p = <<>> THEN <<>> ELSE PiecesFrom(p, 1, <<>>)

(* std: empty pieces vanish (repeated and trailing separators); a `.` piece vanishes unless it is the *)
(* first piece of a path that is not absolute; `..` is kept as written                              *)
RECURSIVE Norm(_, _, _)
Norm(ps, i, rel) ==
  IF i > Len(ps) THEN <<>>
  ELSE IF ps[i] = <<>> THEN Norm(ps, i + 1, rel)
  ELSE IF ps[i] = CurC /\ ~(rel /\ i = 1) THEN Norm(ps, i + 1, rel)
  ELSE <<ps[i]>> \o Norm(ps, i + 1, rel)

Comps(p) ==
  IF IsAbs(p) THEN <<RootC>> \o Norm(Pieces(p), 1, FALSE)
  ELSE Norm(Pieces(p), 1, TRUE)

Count(p) == Len(Comps(p))
PathEq(p, q) == Comps(p) = Comps(q)

(* PathBuf::push *)
Join(a, b) ==
  IF IsAbs(b) THEN b
  ELSE IF a = <<>> THEN b
  ELSE IF a[Len(a)] = SEPB THEN a \o b
  ELSE a \o <<SEPB>> \o b

IsPrefixSeq(s, t) == Len(s) <= Len(t) /\ SubSeq(t, 1, Len(s)) = s
(* Path::starts_with / strip_prefix: by whole components *)
StartsWith(p, q) == IsPrefixSeq(Comps(q), Comps(p))
Rest(p, q) == SubSeq(Comps(p), Len(Comps(q)) + 1, Len(Comps(p)))

(* the components of a relative remainder below a base: a leading `.` of the remainder is not a component *)
(* of the joined path (it is no longer first)                                                         *)
Below(cs) == IF cs # <<>> /\ cs[1] = CurC THEN Tail(cs) ELSE cs

(* JoinAndGetDepth::join_and_get_depth (src/walk/mod.rs): the joined path and how many components the *)
(* second path contributes (all of them, when it replaces the first)                                  *)
Monus(x, y) == IF x >= y THEN x - y ELSE 0
JoinDepth(a, b) ==
  LET j == Join(a, b) IN
  [path |-> j, depth |-> IF IsAbs(b) THEN Count(j) ELSE Monus(Count(j), Count(a))]

(* ---- theorems about the algebra itself, checked by TLC over all short byte strings (PathAlgCheck) ---- *)
(* joining concatenates components, except that a leading `.` of the second path disappears behind a    *)
(* non-empty first one - and that a first path that is just `.` keeps its own                            *)
JoinLaw(a, b) ==
  Comps(Join(a, b)) = IF IsAbs(b) THEN Comps(b)
                      ELSE IF a = <<>> THEN Comps(b)
                      ELSE Comps(a) \o Below(Comps(b))
(* the depth of a join is the number of components the second path adds *)
JoinDepthLaw(a, b) ==
  JoinDepth(a, b).depth = IF IsAbs(b) THEN Count(b)
                          ELSE IF a = <<>> THEN Count(b)
                          ELSE Len(Below(Comps(b)))
(* a path starts with each of its joins' first operands and the remainder is the second operand *)
StripLaw(a, b) ==
  ~IsAbs(b) /\ a # <<>> => StartsWith(Join(a, b), a) /\ Rest(Join(a, b), a) = Below(Comps(b))
=============================================================================
