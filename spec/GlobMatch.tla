----------------------------- MODULE GlobMatch -----------------------------
(***************************************************************************)
(* The documented language of a glob as a transition system.               *)
(*                                                                         *)
(* State of the matcher for one expression: cfg, a set of residual token   *)
(* sequences (Antimirov partial derivatives), and atStart (no character    *)
(* read yet).  Transition: read one character.                             *)
(*                                                                         *)
(* Tree wildcard, positional reading of "zero or more complete components  *)
(* delimited by separators or the ends of the path": it matches            *)
(* w = path[i..j) iff (i = 0 or w starts with "/") and (j = n or w ends    *)
(* with "/" or (i = 0 and w is empty)); a wildcard written with a leading  *)
(* separator matches only the empty text or text that starts with "/",     *)
(* and when it roots the expression only the latter.  As residual states:  *)
(*   T0  nothing consumed, T1s last consumed was "/", T1o last consumed    *)
(*   was not "/".                                                          *)
(*                                                                         *)
(* Two readings (DESIGN.md 4.3): the liberal language Lmay lets T0 be left *)
(* without consuming at the start or the end of the *path*, and T1o at the *)
(* end of the path; the strict language Lmust decides the same exits by    *)
(* the syntactic position of the wildcard in the *expression* (first /     *)
(* last / only / mid, through branches).  Lmust is a subset of Lmay; a     *)
(* conforming implementation satisfies Lmust <= L(impl) <= Lmay.           *)
(***************************************************************************)
EXTENDS GlobSyntax, TLC

(* simple case folding on the characters that occur in the model alphabets *)
Fold(c) ==
  IF c >= 65 /\ c <= 90 THEN c + 32
  ELSE IF c = 201 THEN 233            \* É -> é
  ELSE IF c = 8490 THEN 107           \* KELVIN SIGN -> k
  ELSE IF c = 452 \/ c = 453 THEN 454 \* Ǆ ǅ -> ǆ
  ELSE c

(* ---- position tags (documented reading) ---- *)
(* atS / atE: the sequence begins / ends where the whole expression begins / ends;  *)
(* inRep: inside a repetition that may iterate more than once.                      *)
RECURSIVE Tag(_, _, _, _)
Tag(s, atS, atE, inRep) ==
  [j \in 1..Len(s) |->
     LET t == s[j]  st == atS /\ j = 1  en == atE /\ j = Len(s) IN
     IF t.k = "tree" THEN
        [k |-> "tree", lead |-> t.lead, rooted |-> (t.lead /\ st), partial |-> FALSE,
         pos |-> IF inRep THEN "mid" ELSE IF st /\ en THEN "only" ELSE IF st THEN "first"
                 ELSE IF en THEN "last" ELSE "mid"]
     ELSE IF t.k = "alt" THEN [k |-> "alt", bs |-> [x \in 1..Len(t.bs) |-> Tag(t.bs[x], st, en, inRep)]]
     ELSE IF t.k = "rep" THEN [k |-> "rep", bd |-> Tag(t.bd, st, en, inRep \/ t.hi > 1), lo |-> t.lo, hi |-> t.hi]
     ELSE t]

TagTop(T) == Tag(T, TRUE, TRUE, FALSE)

(* ---- residual matcher; strict \in BOOLEAN selects the reading ---- *)
RECURSIVE NullSeq(_, _, _, _), DerivSeq(_, _, _, _)

TreeNull(t, st, atStart, mode, strict) ==
  IF strict THEN
     CASE st = "T0"  -> (~t.rooted) /\ t.pos # "mid"
       [] st = "T1s" -> TRUE
       [] st = "T1o" -> t.pos \in {"only", "last"} \/ t.partial
  ELSE
     CASE st = "T0"  -> (~t.rooted) /\ (atStart \/ mode = "end")
       [] st = "T1s" -> TRUE
       [] st = "T1o" -> mode = "end"

NullTok(t, atStart, mode, strict) ==
  CASE t.k \in {"lit", "sep", "one", "class"} -> FALSE
    [] t.k = "zom" -> TRUE
    [] t.k = "tree" -> TreeNull(t, "T0", atStart, mode, strict)
    [] t.k = "trs" -> TreeNull(t, t.st, atStart, mode, strict)
    [] t.k = "alt" -> \E i \in DOMAIN t.bs : NullSeq(t.bs[i], atStart, mode, strict)
    [] t.k = "rep" -> t.lo = 0 \/ NullSeq(t.bd, atStart, mode, strict)

NullSeq(s, atStart, mode, strict) ==
  \A j \in DOMAIN s : NullTok(s[j], atStart, mode, strict)

DecB(n) == IF n = INF THEN INF ELSE IF n = 0 THEN 0 ELSE n - 1

TreeStep(t, st, c, atStart, strict) ==
  LET mk(x) == {<<[k |-> "trs", st |-> x, pos |-> t.pos, rooted |-> t.rooted,
                   partial |-> t.partial, lead |-> t.lead]>>} IN
  IF c = cSEP THEN mk("T1s")
  ELSE IF st # "T0" THEN mk("T1o")
  ELSE IF t.lead THEN {}
  ELSE IF strict THEN (IF t.pos \in {"first", "only"} THEN mk("T1o") ELSE {})
  ELSE (IF atStart THEN mk("T1o") ELSE {})

InClass(t, c) == \E j \in DOMAIN t.items : t.items[j][1] <= c /\ c <= t.items[j][2]

DerivTok(t, c, atStart, strict) ==
  CASE t.k = "lit" ->
         LET x == Head(t.s) IN
         IF (IF t.ci THEN Fold(x) = Fold(c) ELSE x = c)
         THEN (IF Len(t.s) = 1 THEN {<<>>} ELSE {<<[t EXCEPT !.s = Tail(t.s)]>>}) ELSE {}
    [] t.k = "sep" -> IF c = cSEP THEN {<<>>} ELSE {}
    [] t.k = "one" -> IF c # cSEP THEN {<<>>} ELSE {}
    [] t.k = "zom" -> IF c # cSEP THEN {<<t>>} ELSE {}
    [] t.k = "class" -> IF c # cSEP /\ (InClass(t, c) # t.neg) THEN {<<>>} ELSE {}
    [] t.k = "tree" -> TreeStep(t, "T0", c, atStart, strict)
    [] t.k = "trs" -> TreeStep(t, t.st, c, atStart, strict)
    [] t.k = "alt" -> UNION {DerivSeq(t.bs[i], c, atStart, strict) : i \in DOMAIN t.bs}
    [] t.k = "rep" ->
         IF t.hi = 0 THEN {}
         ELSE LET rest == IF DecB(t.hi) = 0 THEN <<>>
                          ELSE <<[t EXCEPT !.lo = DecB(t.lo), !.hi = DecB(t.hi)]>> IN
              {d \o rest : d \in DerivSeq(t.bd, c, atStart, strict)}

DerivSeq(s, c, atStart, strict) ==
  IF s = <<>> THEN {}
  ELSE {d \o Tail(s) : d \in DerivTok(Head(s), c, atStart, strict)}
       \cup (IF NullTok(Head(s), atStart, "mid", strict) THEN DerivSeq(Tail(s), c, atStart, strict) ELSE {})

Step(cfg, c, atStart, strict) == UNION {DerivSeq(s, c, atStart, strict) : s \in cfg}
Acc(cfg, atStart, strict) == \E s \in cfg : NullSeq(s, atStart, "end", strict)

(* fold of Step over a concrete path: Accepts(tagged tree, path, strict) *)
RECURSIVE Run(_, _, _, _)
Run(cfg, path, atStart, strict) ==
  IF path = <<>> THEN Acc(cfg, atStart, strict)
  ELSE Run(Step(cfg, Head(path), atStart, strict), Tail(path), FALSE, strict)
Accepts(TT, path, strict) == Run({TT}, path, TRUE, strict)
=============================================================================
