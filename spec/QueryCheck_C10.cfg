INIT Init
NEXT Next
VIEW View
INVARIANT DepthSound
INVARIANT Entered
CHECK_DEADLOCK FALSE
