-------------------------------- MODULE GenSeq --------------------------------
(***************************************************************************)
(* The family of concatenated units for the analyses (C09-C12, C08):       *)
(*     U1 M U2      with  M in {nothing, "/", "a"}                          *)
(* where a unit is a body (literal, separator, wildcard, one or two        *)
(* components, with a tree wildcard first / last), an alternation of two   *)
(* bodies or a repetition of a body with bounds 1,2 / 0,1 / 2.  It         *)
(* contains every pair of depth "termination states" (open at the left,    *)
(* at the right, at both ends, closed) under conjunction (concatenation),  *)
(* disjunction (alternation) and product (repetition), which the lexeme    *)
(* families reach only at 9-13 lexemes.                                    *)
(***************************************************************************)
EXTENDS GlobSyntax, Json, IOUtils

cA == 97
Bodies == {<<cA>>, <<cSEP>>, <<cSTAR>>, <<cA, cSEP>>, <<cSEP, cA>>, <<cA, cSEP, cA>>,
           <<cSTAR, cSTAR, cSEP, cA>>, <<cA, cSEP, cSTAR, cSTAR>>, <<cSTAR, cSTAR>>, <<cA, cSTAR>>}
Bounds == {<<cCOL, 49, cCOM, 50, cGT>>, <<cCOL, 48, cCOM, 49, cGT>>, <<cCOL, 50, cGT>>}
Units == Bodies
         \cup {<<cLC>> \o y \o <<cCOM>> \o z \o <<cRC>> : y \in Bodies, z \in Bodies}
         \cup {<<cLT>> \o y \o b : y \in Bodies, b \in Bounds}
Mids == {<<>>, <<cSEP>>, <<cA>>}

VARIABLES text
Init == \E u1 \in Units, m \in Mids, u2 \in Units : text = u1 \o m \o u2
Next == UNCHANGED text
Emit == PrintT(ToJson([t |-> "CASE", fam |-> "seq", e |-> text]))
=============================================================================
