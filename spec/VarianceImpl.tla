---------------------------- MODULE VarianceImpl ----------------------------
(***************************************************************************)
(* A transcription of the pinned code's depth-variance algebra and of its  *)
(* exhaustiveness analysis (src/token/variance: invariant/term.rs,         *)
(* invariant/mod.rs, mod.rs, natural.rs), over the token trees of          *)
(* GlobSyntax.  It is NOT the documented behaviour (the contracts of       *)
(* GlobQuery are) and it decides no property.  It is the "exact deviation  *)
(* switch" for the analysis findings: an unsound reported value belongs    *)
(* to a known finding only if it EQUALS what this transcription computes,  *)
(* i.e. if the pinned algorithm already produced it; a change of the code  *)
(* that produces a new unsound value is a violation whatever signature it  *)
(* has.  QueryCheck!ImplExact checks on every case that the transcription  *)
(* reproduces the code exactly.                                            *)
(*                                                                         *)
(* A depth variance is a range [lo, hi] (hi = INF: no upper bound);        *)
(* Invariant(n) = [n, n], Variant(Unbounded) = [0, INF], Lower(a) =        *)
(* [a, INF], Upper(b) = [0, b], Both = [l, u] with 1 <= l < u.             *)
(***************************************************************************)
EXTENDS GlobSyntax

R(lo, hi) == [lo |-> lo, hi |-> hi]
IsInv(a) == a.lo = a.hi
IsUpper(a) == a.lo = 0 /\ a.hi # INF /\ a.hi >= 1
Plus(x, y) == IF x = INF \/ y = INF THEN INF ELSE x + y
Times(x, y) == IF x = 0 \/ y = 0 THEN 0 ELSE IF x = INF \/ y = INF THEN INF ELSE x * y
Min(x, y) == IF x <= y THEN x ELSE y
Max(x, y) == IF x >= y THEN x ELSE y

(* TokenVariance::conjunction; a range with only an upper bound is translated, not shifted *)
RAdd(a, b) ==
  IF IsUpper(a) /\ IsInv(b) THEN R(0, a.hi + b.lo)
  ELSE IF IsUpper(b) /\ IsInv(a) THEN R(0, b.hi + a.lo)
  ELSE R(a.lo + b.lo, Plus(a.hi, b.hi))
(* TokenVariance::disjunction *)
RHull(a, b) == R(Min(a.lo, b.lo), Max(a.hi, b.hi))
(* TokenVariance x NaturalRange *)
RMul(a, r) == R(a.lo * r.lo, Times(a.hi, r.hi))

(* ---- SeparatedTerm: [tm |-> termination, v |-> range] ---- *)
Sep(tm, v) == [tm |-> tm, v |-> v]
SepZero == Sep("Open", R(0, 0))
SepOne == Sep("Closed", R(1, 1))

FinalizeSep(t) ==
  CASE t.tm = "Open" -> RAdd(t.v, R(1, 1))
    [] t.tm = "Closed" -> IF IsInv(t.v) THEN R(IF t.v.lo = 0 THEN 0 ELSE t.v.lo - 1, IF t.v.lo = 0 THEN 0 ELSE t.v.lo - 1) ELSE t.v
    [] OTHER -> t.v

(* Termination::conjunction: <<which side is finalized, resulting termination>> *)
TermConj(l, r) ==
  CASE l = "Coalescent" /\ r = "Coalescent" -> <<"Neither", "Coalescent">>
    [] (l = "Closed" /\ r = "Closed") \/ (l = "First" /\ r \in {"Last", "Closed"}) \/ (l = "Closed" /\ r = "Last")
         -> <<"Neither", "Closed">>
    [] l \in {"Last", "Open"} /\ r \in {"Closed", "Last"} -> <<"Neither", "Last">>
    [] (l = "Closed" /\ r \in {"First", "Open"}) \/ (l = "First" /\ r \in {"First", "Open"}) -> <<"Neither", "First">>
    [] l \in {"Open", "Last"} /\ r \in {"First", "Open"} -> <<"Neither", "Open">>
    [] l = "Coalescent" /\ r \in {"Closed", "Last"} -> <<"Right", "Closed">>
    [] l \in {"Closed", "First"} /\ r = "Coalescent" -> <<"Left", "Closed">>
    [] l \in {"Last", "Open"} /\ r = "Coalescent" -> <<"Left", "Last">>
    [] l = "Coalescent" /\ r \in {"First", "Open"} -> <<"Right", "First">>

SepConj(l, r) ==
  LET c == TermConj(l.tm, r.tm)
      lv == IF c[1] = "Left" THEN FinalizeSep(l) ELSE l.v
      rv == IF c[1] = "Right" THEN FinalizeSep(r) ELSE r.v IN
  Sep(c[2], RAdd(lv, rv))

(* ---- TreeTerm: conjunctive (one SeparatedTerm) or disjunctive (a set of them) ---- *)
Conj(t) == [c |-> "conj", ts |-> {t}]
Disj(ts) == [c |-> "disj", ts |-> ts]
TZero == Conj(SepZero)

TConj(a, b) ==
  LET ts == {SepConj(x, y) : x \in a.ts, y \in b.ts} IN
  IF a.c = "conj" /\ b.c = "conj" THEN [c |-> "conj", ts |-> ts] ELSE Disj(ts)
TDisj(a, b) == Disj(a.ts \cup b.ts)
TMul(a, r) == [c |-> a.c, ts |-> {Sep(x.tm, RMul(x.v, r)) : x \in a.ts}]

RECURSIVE HullAll(_)
HullAll(rs) == LET x == CHOOSE x \in rs : TRUE IN
               IF rs = {x} THEN x ELSE RHull(x, HullAll(rs \ {x}))
TFinalize(a) == IF a.ts = {} THEN R(0, 0) ELSE HullAll({FinalizeSep(x) : x \in a.ts})

RECURSIVE ReduceConj(_), ReduceDisj(_)
ReduceConj(ts) == IF Len(ts) = 1 THEN ts[1] ELSE TConj(ReduceConj(SubSeq(ts, 1, Len(ts) - 1)), ts[Len(ts)])
ReduceDisj(ts) == IF Len(ts) = 1 THEN ts[1] ELSE TDisj(ReduceDisj(SubSeq(ts, 1, Len(ts) - 1)), ts[Len(ts)])

LeafTerm(t) ==
  CASE t.k = "sep" -> Conj(SepOne)
    [] t.k = "tree" -> Conj(Sep("Coalescent", R(0, INF)))
    [] OTHER -> TZero

RepRange(t) == IF t.hi # INF /\ t.lo > t.hi THEN R(t.hi, t.lo) ELSE R(t.lo, t.hi)

(* ---- depth: Token::variance::<Depth>() ---- *)
RECURSIVE DepthSeq(_), DepthTok(_)
DepthTok(t) ==
  CASE t.k = "alt" -> ReduceDisj([x \in DOMAIN t.bs |-> DepthSeq(t.bs[x])])
    [] t.k = "rep" -> TMul(DepthSeq(t.bd), RepRange(t))
    [] OTHER -> LeafTerm(t)
DepthSeq(s) == IF s = <<>> THEN TZero ELSE ReduceConj([j \in DOMAIN s |-> DepthTok(s[j])])

DepthImpl(T) == IF T = <<>> THEN TFinalize(TZero) ELSE TFinalize(DepthSeq(T))

(* ---- exhaustiveness: Token::is_exhaustive() ---- *)
(* When of a term: "always" | "sometimes" | "never" *)
ExhOf(a) ==
  LET ws == {IF x.v.hi = INF /\ ~IsInv(x.v) THEN "always" ELSE "never" : x \in a.ts} IN
  IF a.c = "conj" THEN (CHOOSE w \in ws : TRUE)
  ELSE IF ws = {} THEN "never" ELSE IF ws = {"always"} THEN "always" ELSE IF ws = {"never"} THEN "never" ELSE "sometimes"

(* the sequencer keeps, from the end, separators, zero-or-more and tree wildcards and branch tokens *)
Kept(t) == t.k \in {"sep", "zom", "tree", "alt", "rep"}
RECURSIVE SuffixLen(_, _)
SuffixLen(s, n) == IF n < Len(s) /\ Kept(s[Len(s) - n]) THEN SuffixLen(s, n + 1) ELSE n

Finalizable(a) == a.c = "disj" \/ \E x \in a.ts : ~IsInv(x.v) \/ x.v.lo \in {0, 1}

RECURSIVE ExhSeq(_), ExhTok(_)
(* branches of an alternation are kept from the end as well; only the empty glob as a member of *)
(* `any` (a literal leaf) is not kept                                                            *)
RECURSIVE AltSuffixLen(_, _)
AltSuffixLen(bs, n) == IF n < Len(bs) /\ bs[Len(bs) - n] # <<>> THEN AltSuffixLen(bs, n + 1) ELSE n
ExhTok(t) ==
  CASE t.k = "alt" ->
         LET n == AltSuffixLen(t.bs, 0) IN
         IF n = 0 THEN TZero
         ELSE LET sum == ReduceDisj([i \in 1..n |-> ExhSeq(t.bs[Len(t.bs) - i + 1])]) IN
              IF n = Len(t.bs) THEN sum ELSE IF ExhOf(sum) # "never" THEN sum ELSE TZero
    [] t.k = "rep" -> LET b == ExhSeq(t.bd) IN IF Finalizable(b) THEN TMul(b, RepRange(t)) ELSE b
    [] OTHER -> LeafTerm(t)
ExhSeq(s) ==
  LET n == SuffixLen(s, 0) IN
  IF n = 0 THEN TZero
  ELSE (* the terms of the kept suffix are folded in reverse order (last token first) *)
       LET sum == ReduceConj([i \in 1..n |-> ExhTok(s[Len(s) - i + 1])]) IN
       IF n = Len(s) THEN sum
       ELSE IF ExhOf(sum) # "never" THEN sum ELSE TZero

ExhImpl(T) == IF T = <<>> THEN "never" ELSE ExhOf(ExhSeq(T))
=============================================================================
