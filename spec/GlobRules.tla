----------------------------- MODULE GlobRules -----------------------------
(***************************************************************************)
(* The documented rules for glob expressions (README, sections Wildcards,  *)
(* Alternations, Repetitions; property C06), over the token trees of       *)
(* GlobSyntax (stripped).  Two definitions that must agree on every tree   *)
(* (TLC checks this on the enumerated families, RulesAgree):               *)
(*                                                                         *)
(*  semantic   Violations(T): by explicit expansion - choose a branch of    *)
(*             every alternation, write every repetition body once or      *)
(*             twice - and inspection of the flat token sequences;         *)
(*  syntactic  ViolationsCF(T): compositionally, from the first/last leaf   *)
(*             kinds of each sub-expression and its own two neighbours     *)
(*             only - the "context-free" reading that C06 demands.         *)
(*                                                                         *)
(* Rules: (1) no two boundaries (separator or tree wildcard) adjacent      *)
(* whichever branches are chosen and however often (at least once) bodies  *)
(* repeat; (2) no two zero-or-more wildcards adjacent whichever branches   *)
(* are chosen; (3) no branch that is solely a tree wildcard; (4) no        *)
(* repetition body that is solely a separator or a zero-or-more wildcard;  *)
(* (5) no alternation branch and no repetition with lower bound 0 roots    *)
(* the expression; (6) bounds ordered and not 0,0; (7) invariant text      *)
(* below 64 KiB (not modelled: families have small bounds; BIG bounds      *)
(* make the verdict Unspecified).                                          *)
(***************************************************************************)
EXTENDS GlobSyntax

(* leaf kinds that matter for adjacency: "B" boundary, "Z" zero-or-more, "O" anything else *)
KindOf(t) == IF t.k \in {"sep", "tree"} THEN "B" ELSE IF t.k = "zom" THEN "Z" ELSE "O"

(* ------------------------------------------------------------------ semantic *)
(* all flat kind sequences; reps = the set of copy counts to try for every repetition *)
RECURSIVE Expand(_, _), Copies(_, _)
Copies(set, n) == IF n = 1 THEN set ELSE {x \o y : x \in set, y \in Copies(set, n - 1)}
Expand(s, reps) ==
  IF s = <<>> THEN {<<>>}
  ELSE LET t == Head(s)
           head == CASE t.k = "alt" -> UNION {Expand(t.bs[x], reps) : x \in DOMAIN t.bs}
                     [] t.k = "rep" -> LET one == Expand(t.bd, reps) IN
                                       UNION {Copies(one, n) : n \in (IF t.hi = 1 THEN {1} ELSE reps)}
                     [] OTHER -> {<<KindOf(t)>>} IN
       {x \o y : x \in head, y \in Expand(Tail(s), reps)}

(* like Expand, but a repetition with lower bound 0 may also be written zero times (the rules *)
(* never consider that; used only as the signature of a known finding)                      *)
RECURSIVE ExpandZ(_)
ExpandZ(s) ==
  IF s = <<>> THEN {<<>>}
  ELSE LET t == Head(s)
           head == CASE t.k = "alt" -> UNION {ExpandZ(t.bs[x]) : x \in DOMAIN t.bs}
                     [] t.k = "rep" -> ExpandZ(t.bd) \cup (IF t.lo = 0 THEN {<<>>} ELSE {})
                     [] OTHER -> {<<KindOf(t)>>} IN
       {x \o y : x \in head, y \in ExpandZ(Tail(s))}

Adjacent(seqs, kind) == \E x \in seqs : \E i \in 1..(Len(x) - 1) : x[i] = kind /\ x[i + 1] = kind

(* all token sequences nested anywhere in T, with how they are nested *)
RECURSIVE Bodies(_)
Bodies(s) ==
  UNION {
    LET t == s[j] IN
    CASE t.k = "alt" -> {[of |-> "alt", s |-> t.bs[x]] : x \in DOMAIN t.bs}
                          \cup UNION {Bodies(t.bs[x]) : x \in DOMAIN t.bs}
      [] t.k = "rep" -> {[of |-> "rep", s |-> t.bd]} \cup Bodies(t.bd)
      [] OTHER -> {}
    : j \in DOMAIN s }

RECURSIVE Reps(_)
Reps(s) ==
  UNION {
    LET t == s[j] IN
    CASE t.k = "alt" -> UNION {Reps(t.bs[x]) : x \in DOMAIN t.bs}
      [] t.k = "rep" -> {[lo |-> t.lo, hi |-> t.hi]} \cup Reps(t.bd)
      [] OTHER -> {}
    : j \in DOMAIN s }

Rooting(t) == t.k = "sep" \/ (t.k = "tree" /\ t.lead)

(* does a sequence begin with a separator / rooted tree wildcard: "always", "sometimes", "never" *)
RECURSIVE RootOf(_)
Join(set) == IF set = {"always"} THEN "always" ELSE IF set = {"never"} THEN "never" ELSE "sometimes"
RootOf(s) ==
  IF s = <<>> THEN "never"
  ELSE LET t == s[1] IN
       CASE Rooting(t) -> "always"
         [] t.k = "alt" -> Join({RootOf(t.bs[x]) : x \in DOMAIN t.bs})
         [] t.k = "rep" -> LET r == RootOf(t.bd) IN
                           IF t.lo = 0 /\ r # "never" THEN "sometimes" ELSE r
         [] OTHER -> "never"

(* rule 5: branch tokens at the beginning of the expression (through nesting) whose branch / *)
(* optional body can root the expression                                                    *)
RECURSIVE RootedBranch(_)
RootedBranch(s) ==
  /\ s # <<>>
  /\ LET t == s[1] IN
     \/ t.k = "alt" /\ \E x \in DOMAIN t.bs : RootOf(t.bs[x]) # "never" \/ RootedBranch(t.bs[x])
     \/ t.k = "rep" /\ ((t.lo = 0 /\ RootOf(t.bd) # "never") \/ RootedBranch(t.bd))

CommonViolations(T) ==
     (IF \E b \in Bodies(T) : Len(b.s) = 1 /\ b.s[1].k = "tree" THEN {"singular_tree"} ELSE {})
  \cup (IF \E b \in Bodies(T) : b.of = "rep" /\ Len(b.s) = 1 /\ b.s[1].k = "sep" THEN {"singular_sep"} ELSE {})
  \cup (IF \E b \in Bodies(T) : b.of = "rep" /\ Len(b.s) = 1 /\ b.s[1].k = "zom" THEN {"singular_zom"} ELSE {})
  \cup (IF RootedBranch(T) THEN {"rooted_branch"} ELSE {})
  \cup (IF \E r \in Reps(T) : r.hi # INF /\ (r.lo > r.hi \/ (r.lo = 0 /\ r.hi = 0)) THEN {"bounds"} ELSE {})

Violations(T) ==
     (IF Adjacent(Expand(T, {1, 2}), "B") THEN {"adjacent_boundary"} ELSE {})
  \cup (IF Adjacent(Expand(T, {1}), "Z") THEN {"adjacent_zom"} ELSE {})
  \cup CommonViolations(T)

(* ----------------------------------------------------------------- syntactic *)
(* kinds with which a token / sequence can begin and end *)
RECURSIVE Firsts(_), Lasts(_), FirstsTok(_), LastsTok(_)
FirstsTok(t) == CASE t.k = "alt" -> UNION {Firsts(t.bs[x]) : x \in DOMAIN t.bs}
                  [] t.k = "rep" -> Firsts(t.bd)
                  [] OTHER -> {KindOf(t)}
LastsTok(t)  == CASE t.k = "alt" -> UNION {Lasts(t.bs[x]) : x \in DOMAIN t.bs}
                  [] t.k = "rep" -> Lasts(t.bd)
                  [] OTHER -> {KindOf(t)}
Firsts(s) == FirstsTok(s[1])
Lasts(s)  == LastsTok(s[Len(s)])

(* adjacency of kind k somewhere in s: between neighbours of one concatenation, between     *)
(* consecutive copies of a repetition body (boundaries only), or nested                     *)
RECURSIVE AdjCF(_, _)
AdjCF(s, k) ==
  \/ \E j \in 1..(Len(s) - 1) : k \in LastsTok(s[j]) /\ k \in FirstsTok(s[j + 1])
  \/ \E j \in DOMAIN s :
       LET t == s[j] IN
       \/ t.k = "alt" /\ \E x \in DOMAIN t.bs : AdjCF(t.bs[x], k)
       \/ t.k = "rep" /\ (AdjCF(t.bd, k) \/ (k = "B" /\ t.hi > 1 /\ "B" \in Lasts(t.bd) /\ "B" \in Firsts(t.bd)))

ViolationsCF(T) ==
     (IF T # <<>> /\ AdjCF(T, "B") THEN {"adjacent_boundary"} ELSE {})
  \cup (IF T # <<>> /\ AdjCF(T, "Z") THEN {"adjacent_zom"} ELSE {})
  \cup CommonViolations(T)

(* ---------------------------------------------------------------- size limit *)
(* "invariant text stays below the size limit": a token or (sub-)expression whose text has a  *)
(* fixed size in bytes - literals, separators, repetitions with equal bounds of such, and     *)
(* alternations whose branches all have the same such size - must stay below 64 KiB.  The     *)
(* size of "one character" (`?`, a class) in bytes is not fixed by the documentation, so a    *)
(* unit that contains one is not judged here (no prediction; see HasBigBound).                *)
SizeLimit == 65536
SizeCap == 1048576      \* sizes saturate here (TLC integers are 32 bits wide)
Sat(n) == IF n > SizeCap THEN SizeCap ELSE n
Var == [v |-> "var", n |-> 0]
Inv(n) == [v |-> "inv", n |-> Sat(n)]
RECURSIVE SizeSeq(_), SizeTok(_), SumSizes(_, _)
SizeTok(t) ==
  CASE t.k = "lit" -> Inv(ByteLen(t.s))
    [] t.k = "sep" -> Inv(1)
    [] t.k = "alt" -> LET zs == {SizeSeq(t.bs[x]) : x \in DOMAIN t.bs} IN
                      IF \E z \in zs : z.v = "var" THEN Var
                      ELSE IF Cardinality({z.n : z \in zs}) = 1 THEN CHOOSE z \in zs : TRUE ELSE Var
    [] t.k = "rep" -> LET z == SizeSeq(t.bd) IN
                      IF z.v = "inv" /\ t.hi # INF /\ t.lo = t.hi /\ t.lo <= SizeCap
                      THEN (IF t.lo >= 2048 /\ z.n >= 2048 THEN Inv(SizeCap) ELSE Inv(z.n * t.lo)) ELSE Var
    [] OTHER -> Var     \* wildcards: variable; `?` and classes: one character of unspecified size
SumSizes(s, i) == IF i > Len(s) THEN Inv(0)
                  ELSE LET a == SizeTok(s[i])  b == SumSizes(s, i + 1) IN
                       IF a.v = "var" \/ b.v = "var" THEN Var ELSE Inv(a.n + b.n)
SizeSeq(s) == SumSizes(s, 1)
(* some unit (token, branch, body, the whole expression) has a fixed size at or above the limit *)
RECURSIVE OversizedIn(_)
OversizedIn(s) ==
  \/ LET z == SizeSeq(s) IN z.v = "inv" /\ z.n >= SizeLimit
  \/ \E j \in DOMAIN s :
        LET t == s[j]  z == SizeTok(t) IN
        \/ z.v = "inv" /\ z.n >= SizeLimit
        \/ t.k = "alt" /\ \E x \in DOMAIN t.bs : OversizedIn(t.bs[x])
        \/ t.k = "rep" /\ OversizedIn(t.bd)
Oversized(T) == T # <<>> /\ OversizedIn(T)

(* ------------------------------------------------------------------- verdict *)
(* large bounds below the invariant size limit may still exceed the size limit of the compiled *)
(* program (a different, documented error): no prediction                                     *)
RECURSIVE CopiesSeq(_), CopiesTok(_)
MaxOf(S) == IF S = {} THEN 1 ELSE CHOOSE x \in S : \A y \in S : y <= x
CopiesTok(t) ==
  CASE t.k = "rep" -> LET b == IF t.hi = INF THEN t.lo ELSE t.hi
                          c == CopiesSeq(t.bd) IN
                      IF b >= 1000 \/ c >= 1000 THEN 1000000 ELSE (IF b = 0 THEN 1 ELSE b) * c
    [] t.k = "alt" -> MaxOf({CopiesSeq(t.bs[x]) : x \in DOMAIN t.bs})
    [] OTHER -> 1
CopiesSeq(s) == MaxOf({CopiesTok(s[j]) : j \in DOMAIN s})
(* a single large bound, or nested bounds whose product is large (<<*a:256>:256>) *)
HasBigBound(T) == (\E r \in Reps(T) : r.lo >= 1000 \/ (r.hi # INF /\ r.hi >= 1000)) \/ CopiesSeq(T) >= 1000

(* Unspecified clause U1: a body that begins and ends with a boundary but is written at most *)
(* once - the statement speaks of bodies that are "repeated"; either verdict is accepted.     *)
RECURSIVE AmbiguousOnce(_)
AmbiguousOnce(s) == \E j \in DOMAIN s :
   LET t == s[j] IN
   \/ t.k = "alt" /\ \E x \in DOMAIN t.bs : AmbiguousOnce(t.bs[x])
   \/ t.k = "rep" /\ (AmbiguousOnce(t.bd) \/ (t.hi = 1 /\ "B" \in Lasts(t.bd) /\ "B" \in Firsts(t.bd)))

(* "build" | "reject" | "unspec" for an expression text *)
Predict(e) ==
  LET p == Parse(e) IN
  IF p.st = "syn" THEN "reject"
  ELSE IF p.st = "ood" THEN "unspec"
  ELSE LET T == Strip(p.toks) IN
       IF ViolationsCF(T) # {} \/ Oversized(T) THEN "reject"
       ELSE IF HasBigBound(T) \/ AmbiguousOnce(T) THEN "unspec"
       ELSE "build"

(* ------------------------------------------------------- semantic literals *)
(* C12: some component, at any nesting depth, is spelled entirely by literal tokens whose    *)
(* text is "." or "..".  Conservative antecedent: the run of literals is delimited by        *)
(* boundaries inside its own concatenation; where it touches an end of a branch, what lies   *)
(* beyond (lOK / rOK) must be a boundary or an end of the expression; bodies of repetitions   *)
(* that may repeat are delimited only by their own boundaries.                               *)
IsB(t) == t.k \in {"sep", "tree"}
RECURSIVE LitText(_, _, _)
LitText(s, i, j) == IF i > j THEN <<>> ELSE s[i].s \o LitText(s, i + 1, j)
RECURSIVE SemLit(_, _, _)
SemLit(s, lOK, rOK) ==
  \/ \E i \in DOMAIN s : \E j \in i..Len(s) :
        /\ \A x \in i..j : s[x].k = "lit"
        /\ (IF i = 1 THEN lOK ELSE IsB(s[i - 1]))
        /\ (IF j = Len(s) THEN rOK ELSE IsB(s[j + 1]))
        /\ LitText(s, i, j) \in {<<cDOT>>, <<cDOT, cDOT>>}
  \/ \E j \in DOMAIN s :
        LET t == s[j]
            l == IF j = 1 THEN lOK ELSE IsB(s[j - 1])
            r == IF j = Len(s) THEN rOK ELSE IsB(s[j + 1]) IN
        \/ t.k = "alt" /\ \E x \in DOMAIN t.bs : SemLit(t.bs[x], l, r)
        \/ t.k = "rep" /\ (IF t.hi > 1 THEN SemLit(t.bd, FALSE, FALSE) ELSE SemLit(t.bd, l, r))
HasSemanticLiteral(T) == T # <<>> /\ SemLit(T, TRUE, TRUE)

(* consistency of the specification itself *)
(* (a repetition with incompatible bounds denotes no number of copies: nothing else is compared) *)
RulesAgree(T) == "bounds" \in CommonViolations(T) \/ Violations(T) = ViolationsCF(T)
NeverSometimesRooted(T) == ViolationsCF(T) = {} => RootOf(T) # "sometimes"
=============================================================================
