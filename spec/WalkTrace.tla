------------------------------ MODULE WalkTrace ------------------------------
(***************************************************************************)
(* Trace validation: every recorded execution of the real walker           *)
(* (`wv walk`, hook events grouped into one record per Walk action) must   *)
(* be a behaviour of Walk.tla, and every invariant of Walk.tla is          *)
(* evaluated in every state of that behaviour.                             *)
(*                                                                         *)
(* A trace record is [sid, sc, actions].  Each trace action is             *)
(*     IsAction(kind) /\ <bind the logged fields> /\ <Walk action>         *)
(* The sibling order, which walkdir takes from read_dir, is not logged     *)
(* separately: it is bound by the position of the next yield.  Entries     *)
(* that walkdir skips silently (outside the depth bounds) have no event;   *)
(* they are silent Yield steps, bounded by the pending children.           *)
(*                                                                         *)
(* Acceptance: a state with every action consumed is reached (reported as  *)
(* ACCEPT; bin/verify requires it for every trace and otherwise reports    *)
(* the longest matched prefix, AT records).                                 *)
(***************************************************************************)
EXTENDS Walk, Json, IOUtils

Traces == ndJsonDeserialize(IOEnv.TRACES)

VARIABLES tr, l
tvars == <<vars, tr, l>>

(* [<<key, value>>, ...]  ->  function *)
ToFn(pairs) == [k \in {pairs[i][1] : i \in DOMAIN pairs} |->
                  pairs[CHOOSE i \in DOMAIN pairs : pairs[i][1] = k][2]]

(* Depth behaviours count from the root segment - the directory given to the walk -, the walker counts from the    *)
(* directory it starts at: the given directory joined with the glob's invariant prefix.  The difference is the     *)
(* number of components that the prefix adds (PathAlg!JoinDepthLaw); a configured bound b is the bound b - pivot    *)
(* of the traversal, and nothing below zero.  cmin / cmax are the bounds as configured (100: none), prefix the      *)
(* bytes of the native prefix that the real partition of the glob gave.                                            *)
PA == INSTANCE PathAlg
Pivot(t) == PA!JoinDepth(<<100>>, t.sc.prefix).depth       \* (any non-empty relative base: here `d`)
AtPivot(b, t) == IF b >= 100 THEN b ELSE PA!Monus(b, Pivot(t))

ScOf(t) ==
  [bypos |-> TRUE, root |-> t.sc.root, n |-> t.sc.n, parent |-> t.sc.parent, kind |-> t.sc.kind, target |-> t.sc.target,
   readable |-> t.sc.readable, follow |-> t.sc.follow, min |-> AtPivot(t.sc.cmin, t), max |-> AtPivot(t.sc.cmax, t),
   glob |-> t.sc.glob, comp |-> ToFn(t.sc.comp), match |-> ToFn(t.sc.match),
   layers |-> [i \in DOMAIN t.sc.layers |-> ToFn(t.sc.layers[i])]]

TInit == \E i \in 1..Len(Traces) : tr = i /\ l = 1 /\ InitWith(ScOf(Traces[i]))

Acts == Traces[tr].actions
A == Acts[l]
IsAction(kind) == l <= Len(Acts) /\ A.k = kind

Consume == l' = l + 1 /\ UNCHANGED tr
Stay == UNCHANGED <<tr, l>>

TYield ==
  /\ IsAction("yield")
  /\ (YieldRoot \/ YieldNext)
  /\ ~done'
  (* an error item may name no path (A.pos = <<>>): TLC infers the position *)
  /\ cur'.isdir = A.isdir /\ cur'.err = A.err /\ (A.pos = <<>> \/ cur'.pos = A.pos)
  /\ Consume

(* walkdir skipped an entry outside the depth bounds: no event *)
TSilent ==
  /\ l <= Len(Acts) /\ A.k \in {"yield", "end"}
  /\ (YieldRoot \/ YieldNext)
  /\ cur' = NoEntry /\ ~done'
  /\ Stay

TEnd ==
  /\ IsAction("end")
  /\ YieldNext /\ done'
  /\ Consume

TGlob ==
  /\ IsAction("glob")
  /\ GlobLayer
  /\ sep' = A.out
  /\ cancels' - cancels = A.pop
  /\ (CompAt(cur.pos) = "prune") = A.called       \* cancel_walk_tree is called exactly for a pruned entry
  /\ Consume

TLayer ==
  /\ IsAction("layer")
  /\ layer = A.i /\ sep = A.in
  /\ LV(layer, cur.pos) = A.v
  /\ FilterLayer
  /\ (A.out = "?" \/ sep' = A.out)              \* the output is the next layer's logged input
  /\ cancels' - cancels = A.pop
  /\ A.called = (A.v = "tree" /\ A.in # "T")    \* cancel_walk_tree is called exactly when a tree is first discarded
  /\ Consume

TEmit ==
  /\ IsAction("emit")
  /\ Emit
  /\ (Len(out') > Len(out)) = A.emitted
  /\ Consume

TNext == TYield \/ TSilent \/ TEnd \/ TGlob \/ TLayer \/ TEmit
TSpec == TInit /\ [][TNext]_tvars

Report(r) == PrintT(ToJson(r))
Progress == Report([t |-> "AT", sid |-> Traces[tr].sid, l |-> l])
Accepted == (l = Len(Acts) + 1) => Report([t |-> "ACCEPT", sid |-> Traces[tr].sid])

(* the invariants of Walk.tla, reported instead of stopping TLC so that one run covers all traces *)
Inv(name, holds) == holds \/ Report([t |-> "DISAGREE", what |-> name, sid |-> Traces[tr].sid, l |-> l])
WalkInvariants ==
  /\ Inv("NothingBeneathDiscarded", NothingBeneathDiscarded)
  /\ Inv("CancelOnce", CancelOnce)
  /\ Inv("CancelPopsOwnFrame", CancelPopsOwnFrame)
  /\ Inv("DepthBounded", DepthBounded)
  /\ Inv("NoDescentThroughLinks", NoDescentThroughLinks)
  /\ Inv("Final", Final)
=============================================================================
