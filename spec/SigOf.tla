------------------------------- MODULE SigOf -------------------------------
(***************************************************************************)
(* Signatures of expressions for the attribution of disagreements that are *)
(* found by a check which does not read expressions itself (Lifecycle):    *)
(* one record per case of OBS ([id, e]) with the syntactic signatures of   *)
(* KnownFindings.                                                          *)
(***************************************************************************)
EXTENDS KnownFindings, Json, IOUtils

Obs == ndJsonDeserialize(IOEnv.OBS)
VARIABLES case
Init == case \in 1..Len(Obs)
Next == UNCHANGED case
Emit ==
  LET p == Parse(Obs[case].e)  T == IF p.st = "ok" THEN Strip(p.toks) ELSE <<>> IN
  PrintT(ToJson([t |-> "SIG", id |-> Obs[case].id, parses |-> (p.st = "ok"),
                 treenested1 |-> TreeNested(T, 1), treenested2 |-> TreeNested(T, 0) /\ TreeNested(T, 2),
                 inrep |-> TreeInRep(T), rootedfirst |-> RootedTreeFirst(T)]))
=============================================================================
