------------------------------ MODULE RuleTrace ------------------------------
(***************************************************************************)
(* Trace validation of the rule checker and the refinement of the          *)
(* documented rules by RuleImpl.                                           *)
(*                                                                         *)
(* One record per expression (`wv observe`, want = rules): e (text),       *)
(* outcome ("ok" | "parse" | "rule" | "compile" | "panic"), rtrace: the    *)
(* visits that the real `rule::branch` made, in order, each                *)
(*   [k : "A" | "R", s : span of the branch token,                         *)
(*    l, r : span of the context's left / right token or <<-1, -1>>]       *)
(* (byte spans).                                                           *)
(*                                                                         *)
(* Three layers, reported apart:                                           *)
(*  DISAGREE (C06, "the verdict for a sub-expression depends only on its   *)
(*    own neighbours"): every recorded visit checks a branch token of the  *)
(*    expression against ITS OWN context - the nearest tokens to its left  *)
(*    and right, looking outwards through the branches it is first / last  *)
(*    in (RuleImpl!AllOwnVisits) -, in whatever order the visits come.     *)
(*  IMPL (conformance with the pinned algorithm; informative): the record  *)
(*    is a behaviour of the RuleImpl machine - the i-th recorded visit is  *)
(*    the machine's i-th step (first-in first-out queue) and the recording *)
(*    ends where the machine ends.                                         *)
(*  SPEC (self-consistency; an error of the model): the machine visits     *)
(*    exactly the branch tokens with their own contexts, and its verdict   *)
(*    is the documented verdict up to the two named deviations of          *)
(*    KnownFindingsRules.                                                  *)
(***************************************************************************)
EXTENDS RuleImpl, KnownFindingsRules, Integers, TLC, Json, IOUtils

Obs == ndJsonDeserialize(IOEnv.OBS)

VARIABLES case, l, st
tvars == <<rvars, case, l, st>>

O == Obs[case]
P == Parse(O.e)
Rec == O.rtrace
Report(r) == PrintT(ToJson(r))
Say(type, what, more) == Report([t |-> type, prop |-> "C06", what |-> what, id |-> O.id, at |-> l] @@ more)

HasBranch(e) == \E i \in DOMAIN e : e[i] \in {123, 60}      \* { or <
InDomain(o) == o.kind = "glob" /\ o.outcome \in {"ok", "rule", "compile"} /\ HasBranch(o.e)

(* a token's span as the code reports it: with or without the flags written in front (clause U3) *)
SpanIs(t, sp) == t.k # "none" /\ (<<sp[1], sp[2]>> = ByteSpan(O.e, t.a, t.b) \/ <<sp[1], sp[2]>> = ByteSpan(O.e, t.f, t.b))
CtxIs(t, sp) == IF t.k = "none" THEN sp[1] = -1 ELSE SpanIs(t, sp)
SpanOf(t) == IF t.k = "none" THEN <<-1, -1>> ELSE ByteSpan(O.e, t.a, t.b)
KindIs(t, k) == k = (IF t.k = "alt" THEN "A" ELSE "R")
Expected(v) == [k |-> IF v.t.k = "alt" THEN "A" ELSE "R", s |-> SpanOf(v.t), l |-> SpanOf(v.c.l), r |-> SpanOf(v.c.r)]

(* the boundary and bounds phases come first: when they fail, branch() never runs ("early") *)
TInit == /\ case \in {i \in 1..Len(Obs) : InDomain(Obs[i])}
         /\ l = 1 /\ st = "new" /\ q = <<>> /\ pos = 1 /\ err = ""

(* (a step of its own so that TLC's workers share the parsing; initial states are computed by one thread) *)
TLoad ==
  /\ st = "new"
  /\ UNCHANGED <<case, l>>
  /\ LET p == Parse(O.e) IN
     IF p.st # "ok" THEN st' = "skip" /\ UNCHANGED rvars
     ELSE /\ st' = (IF AdjacentLeaves(p.toks) \/ BadBounds(p.toks) THEN "early" ELSE "run")
          /\ q' = <<Item(p.toks, [l |-> NoTok, r |-> NoTok])>> /\ pos' = 1 /\ err' = ""

TVisit ==
  /\ st = "run" /\ l <= Len(Rec) /\ ~AtEnd
  /\ LET v == NextVisit  ev == Rec[l] IN
     IF KindIs(v.t, ev.k) /\ SpanIs(v.t, ev.s) /\ CtxIs(v.c.l, ev.l) /\ CtxIs(v.c.r, ev.r)
     THEN Visit /\ l' = l + 1 /\ UNCHANGED <<case, st>>
     ELSE /\ st' = "rejected" /\ UNCHANGED <<rvars, case, l>>

TFinish ==
  /\ st = "run"
  /\ (l > Len(Rec) \/ AtEnd)
  /\ st' = "done" /\ UNCHANGED <<rvars, case, l>>

TNext == TLoad \/ TVisit \/ TFinish
TSpec == TInit /\ [][TNext]_tvars

Toks == q[1].s        \* in an initial state: the expression
Fresh == st \in {"run", "early"} /\ l = 1 /\ pos = 1 /\ Len(q) = 1 /\ q[1].c.l = NoTok /\ q[1].c.r = NoTok /\ err = ""

(* ---- C06: every recorded visit uses the branch token's own context (evaluated once per record) ---- *)
OwnContexts ==
  Fresh =>
    LET own == AllOwnVisits(Toks) IN
    \A i \in DOMAIN Rec :
      LET ev == Rec[i]
          cands == {v \in own : KindIs(v.t, ev.k) /\ SpanIs(v.t, ev.s)} IN
      \/ cands = {}    \* not a branch token of the expression as the reader sees it: reported by IMPL below
      \/ \E v \in cands : CtxIs(v.c.l, ev.l) /\ CtxIs(v.c.r, ev.r)
      \/ Say("DISAGREE", "branch_checked_against_a_context_that_is_not_its_own",
             [got |-> ev, expected |-> Expected(CHOOSE v \in cands : TRUE)])

(* ---- IMPL: the record is a behaviour of the machine ---- *)
NoRejection ==
  st = "rejected" => Say("IMPL", "visit_is_not_the_next_step_of_the_machine", [got |-> Rec[l], expected |-> Expected(NextVisit)])

EndsTogether ==
  /\ (st = "early" => Rec = <<>>) \/ Say("IMPL", "visits_although_an_earlier_phase_fails", [n |-> Len(Rec)])
  /\ st = "done" =>
      /\ (l = Len(Rec) + 1) \/ Say("IMPL", "visits_after_the_machine_ended", [n |-> Len(Rec)])
      /\ AtEnd \/ Say("IMPL", "recording_ends_before_the_machine", [n |-> Len(Rec), next |-> SpanOf(NextVisit.t)])
      /\ (AtEnd /\ l = Len(Rec) + 1 /\ err # "" => O.outcome = "rule") \/ Say("IMPL", "machine_fails_code_builds", [err |-> err])

(* ---- SPEC: the machine against the rest of the specification ---- *)
Devs == {"rep_leaf_only", "rule5_leaf_only"}
(* (a self-check of the model, not of the code: in the quick tier on every fourth record) *)
SelfCheckEvery == IF "RT_SELFCHECK_EVERY" \in DOMAIN IOEnv THEN atoi(IOEnv.RT_SELFCHECK_EVERY) ELSE 1
MachineSound ==
  (Fresh /\ case % SelfCheckEvery = 0) =>
    LET T == Strip(Toks) IN
    /\ MachineVisitsOwn(Toks) \/ Say("SPEC", "machine_does_not_visit_every_branch_with_its_own_context", [n |-> Len(MachineVisits(Toks))])
    /\ ("bounds" \in CommonViolations(T) \/ AmbiguousOnce(T) \/ ((ImplVerdict(Toks) = "") <=> (ViolationsDev(T, Devs) = {})))
         \/ Say("SPEC", "machine_does_not_refine_the_documented_rules", [impl |-> ImplVerdict(Toks), doc |-> ViolationsDev(T, Devs)])
=============================================================================
