------------------------------ MODULE GenCases ------------------------------
(***************************************************************************)
(* The families of glob expressions that the checks enumerate, defined in  *)
(* the specification (one source of truth) and serialised by TLC.          *)
(*                                                                         *)
(* A lexeme family is the set of all balanced sequences, up to a length,   *)
(* over a small set of lexemes (literal characters, separators, wildcards, *)
(* classes, flags, branch delimiters and bound suffixes).  "Balanced"      *)
(* only means that branch delimiters nest; everything else (adjacent       *)
(* wildcards, adjacent boundaries, rooted branches ...) is in the family   *)
(* on purpose, because the rule checker and the reader are under test.     *)
(*                                                                         *)
(* Environment: FAMILY (name), N (maximal number of lexemes), OUT (file).  *)
(***************************************************************************)
EXTENDS GlobSyntax, TLC, Json, IOUtils, SequencesExt

(* kinds: 0 plain, 1 "{", 2 ",", 3 "}", 4 "<", 5 end of repetition *)
L(text, kind) == [t |-> text, k |-> kind]

cA == 97  cB == 98  cUA == 65  cEAC == 233  cKIN == 37329

Open   == L(<<cLC>>, 1)
Comma  == L(<<cCOM>>, 2)
Close  == L(<<cRC>>, 3)
ROpen  == L(<<cLT>>, 4)
RClose == L(<<cGT>>, 5)
R12    == L(<<cCOL, 49, cCOM, 50, cGT>>, 5)
R2     == L(<<cCOL, 50, cGT>>, 5)
R01    == L(<<cCOL, 48, cCOM, 49, cGT>>, 5)
R1     == L(<<cCOL, 49, cGT>>, 5)
R1x    == L(<<cCOL, 49, cCOM, cGT>>, 5)
R02    == L(<<cCOL, 48, cCOM, 50, cGT>>, 5)
FlagI  == L(<<cLP, cQ, cI, cRP>>, 0)
FlagNI == L(<<cLP, cQ, cDASH, cI, cRP>>, 0)
P(c)   == L(<<c>>, 0)
Tree   == L(<<cSTAR, cSTAR>>, 0)
ClsA   == L(<<cLB, cA, cRB>>, 0)
ClsNA  == L(<<cLB, cBANG, cA, cRB>>, 0)
ClsUA  == L(<<cLB, cUA, cRB>>, 0)
ClsAB  == L(<<cLB, cA, cDASH, cB, cRB>>, 0)
ClsSep == L(<<cLB, cSEP, cRB>>, 0)
ClsDot == L(<<cLB, cDOT, cRB>>, 0)     \* classes used to escape: one punctuation / meta character
ClsStar == L(<<cLB, cSTAR, cRB>>, 0)

(* class ranges around the separator: every ordered pair of bounds over + . / 0, plain and negated *)
RB == <<43, 46, 47, 48>>
ClsR(x, y, neg) == L(<<cLB>> \o (IF neg THEN <<cBANG>> ELSE <<>>) \o (IF x = y THEN <<x>> ELSE <<x, cDASH, y>>) \o <<cRB>>, 0)
RngLex == [k \in 1..32 |-> LET p == (k - 1) \div 2 IN ClsR(RB[(p \div 4) + 1], RB[(p % 4) + 1], (k - 1) % 2 = 1)]

Lexemes(fam) ==
  CASE fam = "core" ->
         <<P(cA), P(cB), P(cSEP), P(cQ), P(cSTAR), Tree, ClsA, Open, Comma, Close,
           ROpen, RClose, R12, R2, R01>>
    [] fam = "case" ->
         <<P(cA), P(cUA), P(cEAC), P(cSEP), P(cSTAR), Tree, ClsA, ClsNA, ClsUA, FlagI, FlagNI,
           Open, Comma, Close, P(453)>>     \* 453: a titlecase letter (neither lower nor upper case, folds to 454)
    [] fam = "dots" ->
         <<P(cDOT), P(cA), P(cSEP), P(cSTAR), P(cDOL), Tree, Open, Comma, Close,
           ROpen, RClose, R01, R1x, R2, ClsDot, ClsStar>>
    [] fam = "cls" ->
         <<P(cA), P(cB), P(cSEP), P(cQ), ClsA, ClsNA, ClsAB, ClsSep, P(cKIN), FlagI, ROpen, R12, R1>>
    [] fam = "root" ->   \* repetitions that root the expression (lower bound of at least one) and what follows them
         <<P(cA), P(cSEP), P(cSTAR), Tree, ROpen, R1, R1x, R12>>
    [] fam = "mini" ->
         <<P(cA), P(cSEP), P(cSTAR), Tree, Open, Comma, Close, ROpen, R12, R01>>
    [] fam = "text" ->   \* every string over the meta-characters, the contextual ones, a separator and letters
         <<P(cQ), P(cSTAR), P(cDOL), P(cCOL), P(cLT), P(cGT), P(cLP), P(cRP), P(cLB), P(cRB), P(cLC), P(cRC),
           P(cCOM), P(cBS), P(cDASH), P(cBANG), P(cSEP), P(cA), P(cEAC), P(cI), P(49)>>
    [] fam = "esc" ->   \* C18: every string over the meta-characters, the contextual ones, a separator and letters
         <<P(cQ), P(cSTAR), P(cDOL), P(cCOL), P(cLT), P(cGT), P(cLP), P(cRP), P(cLB), P(cRB), P(cLC), P(cRC),
           P(cCOM), P(cDASH), P(cBANG), P(cSEP), P(cA), P(cEAC),
           \* non-ASCII characters whose code point, truncated to a byte, is a meta-character, a separator or
           \* a backslash: U+0424 (dollar), U+015B (left bracket), U+012A (asterisk), U+013F (question mark),
           \* U+012F (slash), U+015C (backslash), U+7329 (right parenthesis)
           P(1060), P(347), P(298), P(319), P(303), P(348), P(29481),
           \* white space and control characters: tab, no-break space, line separator, ideographic space
           P(9), P(160), P(8232), P(12288),
           P(65279)>>     \* a byte order mark / zero-width no-break space (invisible: stripped by some readers)
    [] fam = "flags" ->   \* flag placement: before, inside and after branches, next to classes
         <<P(cA), P(cUA), FlagI, FlagNI, Open, Comma, Close, ROpen, R12, ClsA, P(49)>>   \* 1: a literal without case
    [] fam = "rng" ->   \* ranges whose bounds lie below, on and above the separator
         RngLex \o <<P(cA), P(cSEP), P(cQ)>>
    [] fam = "cls2" ->   \* classes with several members, negated ranges, escaped members; escaped literals
         <<P(cA), P(cSEP), P(cQ), L(<<cLB, cA, cB, cRB>>, 0), L(<<cLB, cBANG, cA, cB, cRB>>, 0),
           L(<<cLB, cBANG, cA, cDASH, cB, cRB>>, 0), L(<<cLB, cA, cBS, cRB, cRB>>, 0), L(<<cLB, cBS, cDASH, cRB>>, 0),
           L(<<cLB, cA, cSEP, cRB>>, 0), L(<<cBS, cSTAR>>, 0), L(<<cBS, cLB>>, 0), L(<<cBS, cBS>>, 0),
           L(<<cBS, cLP>>, 0), L(<<cBS, cRP>>, 0), L(<<cLB, cLP, cRB>>, 0),     \* parentheses: escaped, in a class
           L(<<cLB, cA, cUA, cRB>>, 0),                                          \* one letter in both cases
           FlagI, Open, Comma, Close>>
    [] fam = "bnd" ->    \* every way of writing repetition bounds (defaults, open ends, equal, reversed, zeros)
         <<P(cA), P(cSEP), ROpen, RClose, L(<<cCOL, cGT>>, 5), L(<<cCOL, 48, cGT>>, 5), R1, L(<<cCOL, 51, cGT>>, 5),
           L(<<cCOL, 48, cCOM, cGT>>, 5), L(<<cCOL, 50, cCOM, cGT>>, 5), L(<<cCOL, cCOM, 50, cGT>>, 5),
           L(<<cCOL, 48, cCOM, 48, cGT>>, 5), L(<<cCOL, 49, cCOM, 49, cGT>>, 5), L(<<cCOL, 51, cCOM, 50, cGT>>, 5),
           L(<<cCOL, 48, 50, cGT>>, 5), L(<<cCOL, 50, cCOM, 51, cGT>>, 5), L(<<cCOL, cCOM, cGT>>, 5)>>
    [] fam = "size" ->   \* the invariant size limit (64 KiB): bounds just below, at and above it, products and sums
         <<P(cA), P(cSEP), P(cSTAR), ROpen, Open, Comma, Close,
           L(<<cCOL, 54, 53, 53, 51, 53, cGT>>, 5), L(<<cCOL, 54, 53, 53, 51, 54, cGT>>, 5),
           L(<<cCOL, 51, 50, 55, 54, 56, cGT>>, 5), L(<<cCOL, 50, 53, 54, cGT>>, 5),
           L(<<cCOL, 54, 53, 53, 51, 54, cCOM, cGT>>, 5), L(<<cCOL, 49, cCOM, 54, 53, 53, 51, 54, cGT>>, 5)>>
    [] fam = "errs" ->   \* C17: faults next to flags and to 2- and 3-byte characters, inside and outside branches
         <<FlagI, P(cEAC), P(cKIN), P(cA), P(cSEP), P(cSTAR), ROpen, L(<<cCOL, 48, cGT>>, 5), L(<<cCOL, 50, cCOM, 49, cGT>>, 5),
           R12, Open, Comma, Close>>
    [] fam = "punct" ->  \* characters that mean something in the regular expressions the code compiles to, as
                         \* literals and as class members: . + | ^ # & ~ space =
         <<P(cDOT), P(43), P(124), P(94), P(35), P(38), P(126), P(32), P(61), P(cA), P(cSEP), P(cSTAR),
           P(9), P(8232), P(12288),     \* tab, line separator, ideographic space
           L(<<cLB, 38, 38, cRB>>, 0), L(<<cLB, 126, 94, cRB>>, 0), L(<<cLB, 124, cRB>>, 0), L(<<cLB, cBANG, 32, 35, cRB>>, 0),
           \* members that spell a set operator of the regex crate when left unescaped: ~~  --  &&
           L(<<cLB, cA, 126, 126, 43, cRB>>, 0), L(<<cLB, cBANG, cA, 126, 126, cRB>>, 0),
           L(<<cLB, cA, cBS, cDASH, cBS, cDASH, 43, cRB>>, 0), L(<<cLB, cA, 38, 38, 43, cRB>>, 0),
           FlagI>>
    [] fam = "deep" ->
         <<P(cA), P(cSEP), Open, Comma, Close, ROpen, R12, R01>>

(* The family as a transition system: a state is the text written so far and the stack of   *)
(* open delimiters; a step appends one lexeme.  Every reachable state with an empty stack    *)
(* is a case.  TLC explores it in parallel and prints each case; two lexeme sequences that   *)
(* spell the same text are merged by bin/verify, which also numbers the cases.               *)
Num(s) == CASE s = "0" -> 0 [] s = "1" -> 1 [] s = "2" -> 2 [] s = "3" -> 3 [] s = "4" -> 4
            [] s = "5" -> 5 [] s = "6" -> 6 [] s = "7" -> 7 [] s = "8" -> 8 [] s = "9" -> 9
            [] s = "10" -> 10 [] s = "11" -> 11 [] s = "12" -> 12 [] s = "13" -> 13 [] s = "14" -> 14
            [] s = "15" -> 15 [] s = "16" -> 16

Family == IOEnv.FAMILY
N      == Num(IOEnv.N)
Lex    == Lexemes(Family)

VARIABLES text, stack, n
vars == <<text, stack, n>>

Init == text = <<>> /\ stack = <<>> /\ n = 0

Next ==
  /\ n < N
  /\ \E i \in DOMAIN Lex :
       LET k == Lex[i].k
           top == IF stack = <<>> THEN 0 ELSE stack[Len(stack)]
           pop == SubSeq(stack, 1, Len(stack) - 1) IN
       /\ CASE k = 0 -> stack' = stack
            [] k = 1 -> stack' = Append(stack, 1)
            [] k = 2 -> top = 1 /\ stack' = stack
            [] k = 3 -> top = 1 /\ stack' = pop
            [] k = 4 -> stack' = Append(stack, 4)
            [] k = 5 -> top = 4 /\ stack' = pop
       /\ Len(stack') <= N - (n + 1)
       /\ text' = text \o Lex[i].t
  /\ n' = n + 1



Emit == stack = <<>> => PrintT(ToJson([t |-> "CASE", fam |-> Family, e |-> text, n |-> n]))
=============================================================================
