------------------------------ MODULE ObsCheck ------------------------------
(***************************************************************************)
(* Validation of recorded observations of the real code (`wv observe`)     *)
(* against the specification, one record at a time: "bind the logged       *)
(* fields, evaluate the specification, compare".  Records are independent; *)
(* Init picks the record, Check evaluates it, so TLC's workers share the   *)
(* work.  PROP selects which clauses are evaluated:                        *)
(*   C06  build verdict vs. GlobRules!Predict; has_root never "sometimes"  *)
(*   C12  GlobRules!HasSemanticLiteral => has_semantic_literals();         *)
(*        has_root of a glob never "sometimes"                             *)
(*   C17  spans of errors and captures vs. the reader's token positions    *)
(*   C05  outcome classes (a panic is a disagreement)                      *)
(*   TOK  the nom parser's token tree equals the TLA+ reader's             *)
(* SPEC records flag inconsistencies of the specification itself.          *)
(***************************************************************************)
EXTENDS GlobRules, KnownFindingsRules, Json, IOUtils

Obs  == ndJsonDeserialize(IOEnv.OBS)
Prop == IOEnv.PROP

VARIABLES case, st
vars == <<case, st>>

Init == case \in 1..Len(Obs) /\ st = "new"
Check == st = "new" /\ st' = "done" /\ UNCHANGED case
Next == Check
Spec == Init /\ [][Next]_vars

Report(r) == PrintT(ToJson(r))
O == Obs[case]
Dis(what, x) == Report([t |-> "DISAGREE", prop |-> Prop, what |-> what, id |-> O.id, x |-> x])

IsGlob == O.kind = "glob"
Built == O.outcome = "ok"

(* ------------------------------------------------------------------ C06 *)
BuildX(p) ==
  IF p.st # "ok" THEN [outcome |-> O.outcome, ekind |-> O.ekind, viol |-> {}, flagtree |-> FALSE, oversized |-> FALSE,
                        dev23 |-> FALSE, dev24 |-> FALSE, devboth |-> FALSE]
  ELSE LET T == Strip(p.toks) IN
       [outcome |-> O.outcome, ekind |-> O.ekind, viol |-> ViolationsCF(T),
        flagtree |-> FlagBeforeLeadingTree(p.toks),
        oversized |-> Oversized(T),
        (* a deviation explains a build only if a documented rule is violated, the deviating definition *)
        (* sees no violation, and the size limit is respected                                           *)
        dev23 |-> ViolationsCF(T) # {} /\ ~Oversized(T) /\ ViolationsDev(T, {"rep_leaf_only"}) = {},
        dev24 |-> ViolationsCF(T) # {} /\ ~Oversized(T) /\ ViolationsDev(T, {"rule5_leaf_only"}) = {},
        devboth |-> ViolationsCF(T) # {} /\ ~Oversized(T) /\ ViolationsDev(T, {"rep_leaf_only", "rule5_leaf_only"}) = {}]

BuildOK ==
  (st = "done" /\ Prop = "C06" /\ IsGlob /\ O.outcome # "panic") =>
    LET p == Parse(O.e)  pred == Predict(O.e) IN
    /\ (pred = "build"  => Built) \/ Dis("rejected_wellformed", BuildX(p))
    /\ (pred = "reject" => ~Built) \/ Dis("built_illformed", BuildX(p))
    /\ (Built /\ O.qpanic = "" => O.q.root # "sometimes") \/ Dis("glob_sometimes_rooted", BuildX(p))
    /\ (Built /\ O.qpanic = "" /\ pred = "build" => (RootOf(Strip(p.toks)) = "always") = (O.q.root = "always"))
         \/ Dis("root_differs_from_documented", BuildX(p))

(* the two definitions of the rules agree, and no well-formed tree is sometimes rooted *)
SpecConsistent ==
  (st = "done" /\ Prop = "C06" /\ IsGlob) =>
    LET p == Parse(O.e) IN
    p.st = "ok" =>
      LET T == Strip(p.toks) IN
      /\ RulesAgree(T) \/ Report([t |-> "SPEC", what |-> "rules_disagree", id |-> O.id])
      /\ NeverSometimesRooted(T) \/ Report([t |-> "SPEC", what |-> "wellformed_sometimes_rooted", id |-> O.id])

(* ------------------------------------------------------------------ C12 *)
SemLitOK ==
  (st = "done" /\ Prop = "C12" /\ IsGlob /\ Built /\ O.qpanic = "") =>
    LET p == Parse(O.e) IN
    /\ (p.st = "ok" /\ HasSemanticLiteral(Strip(p.toks)) => O.q.sem) \/ Dis("semantic_literal_not_reported", [sem |-> O.q.sem])
    /\ (O.q.root # "sometimes") \/ Dis("glob_sometimes_rooted", BuildX(p))

(* ------------------------------------------------------------------ C17 *)
OnBoundary(e, off) == \E i \in 1..(Len(e) + 1) : ByteOff(e, i) = off
SpanSafe(e, s) == s[1] + s[2] <= ByteLen(e) /\ OnBoundary(e, s[1]) /\ OnBoundary(e, s[1] + s[2])

(* byte spans of the capturing top-level tokens, in order; either with or without the flags that *)
(* precede the token (the documentation does not say which: both accepted)                       *)
CapTokens(toks) == SelectSeq(toks, Capturing)
CapsMatch(e, toks, caps) ==
  LET ct == CapTokens(toks) IN
  /\ Len(caps) = Len(ct)
  /\ \A j \in DOMAIN ct :
       /\ caps[j][1] = j
       /\ LET s == <<caps[j][2], caps[j][3]>> IN
          s = ByteSpan(e, ct[j].a, ct[j].b) \/ s = ByteSpan(e, ct[j].f, ct[j].b)

SpansOK ==
  (st = "done" /\ Prop = "C17" /\ IsGlob) =>
    /\ (\A i \in DOMAIN O.espans : SpanSafe(O.e, O.espans[i]))
         \/ Dis("error_span_unsafe", [spans |-> O.espans, elen |-> O.elen])
    /\ (Built /\ O.qpanic = "") =>
         LET p == Parse(O.e) IN
         /\ (\A i \in DOMAIN O.q.caps : SpanSafe(O.e, <<O.q.caps[i][2], O.q.caps[i][3]>>))
              \/ Dis("capture_span_unsafe", [caps |-> O.q.caps])
         /\ (p.st = "ok" => CapsMatch(O.e, p.toks, O.q.caps))
              \/ Dis("capture_span_not_token", [caps |-> O.q.caps])
         /\ (O.part.has_post =>
               LET pp == Parse(O.part.post) IN
               /\ (\A i \in DOMAIN O.part.post_caps : SpanSafe(O.part.post, <<O.part.post_caps[i][2], O.part.post_caps[i][3]>>))
                    \/ Dis("postfix_capture_span_unsafe", [caps |-> O.part.post_caps, post |-> O.part.post])
               /\ (pp.st = "ok" => CapsMatch(O.part.post, pp.toks, O.part.post_caps))
                    \/ Dis("postfix_capture_span_not_token", [caps |-> O.part.post_caps, post |-> O.part.post]))
         (* the same for the postfix of a glob that owns its expression (into_owned, str::parse): its spans index ITS text *)
         /\ ((O.part.own_ok /\ O.part.own_has_post) =>
               LET po == Parse(O.part.own_post) IN
               /\ (\A i \in DOMAIN O.part.own_post_caps : SpanSafe(O.part.own_post, <<O.part.own_post_caps[i][2], O.part.own_post_caps[i][3]>>))
                    \/ Dis("owned_postfix_capture_span_unsafe", [caps |-> O.part.own_post_caps, post |-> O.part.own_post])
               /\ (po.st = "ok" => CapsMatch(O.part.own_post, po.toks, O.part.own_post_caps))
                    \/ Dis("owned_postfix_capture_span_not_token", [caps |-> O.part.own_post_caps, post |-> O.part.own_post]))
         /\ ((O.part.par_ok /\ O.part.par_has_post) =>
               LET po == Parse(O.part.par_post) IN
               /\ (\A i \in DOMAIN O.part.par_post_caps : SpanSafe(O.part.par_post, <<O.part.par_post_caps[i][2], O.part.par_post_caps[i][3]>>))
                    \/ Dis("owned_postfix_capture_span_unsafe", [caps |-> O.part.par_post_caps, post |-> O.part.par_post])
               /\ (po.st = "ok" => CapsMatch(O.part.par_post, po.toks, O.part.par_post_caps))
                    \/ Dis("owned_postfix_capture_span_not_token", [caps |-> O.part.par_post_caps, post |-> O.part.par_post]))

(* ------------------------------------------------------------------ C05 *)
Total ==
  (st = "done" /\ Prop = "C05") =>
    /\ (O.outcome # "panic") \/ Dis("panic_in_build", [site |-> O.panic, op |-> O.op])
    /\ (O.qpanic = "") \/ Dis("panic_in_query", [site |-> O.qpanic, op |-> O.op])
    /\ (O.outcome = "compile" => O.ekind = "oversized_program") \/ Dis("compile_error_not_oversize", [ekind |-> O.ekind])
    /\ (O.outcome \in {"ok", "parse", "rule", "compile", "panic"}) \/ Dis("abnormal_termination", [outcome |-> O.outcome, site |-> O.panic])
    /\ O.slice_ok \/ Dis("slicing_by_error_span_panics", [spans |-> O.espans])

(* ------------------------------------------------------------------ TOK *)
(* the token tree of the nom parser (verif_tokens hook) equals the reader's, spans included *)
RECURSIVE TokEq(_, _, _)
NumOf(x) == x
TokSeqEq(e, ts, js) == Len(ts) = Len(js) /\ \A i \in DOMAIN ts : TokEq(e, ts[i], js[i])
TokEq(e, t, j) ==
  /\ (<<j.span[1], j.span[2]>> = ByteSpan(e, t.a, t.b) \/ <<j.span[1], j.span[2]>> = ByteSpan(e, t.f, t.b))
  /\ CASE t.k = "lit"   -> j.k = "lit" /\ j.s = t.s /\ j.ci = t.ci
       [] t.k = "sep"   -> j.k = "sep"
       [] t.k = "one"   -> j.k = "one"
       [] t.k = "zom"   -> j.k = "zom" /\ j.lazy = t.lazy
       [] t.k = "class" -> j.k = "class" /\ j.neg = t.neg /\ j.items = t.items
       [] t.k = "tree"  -> j.k = "tree" /\ j.lead = t.lead
       [] t.k = "alt"   -> j.k = "alt" /\ Len(j.ts) = Len(t.bs)
                           /\ \A x \in DOMAIN t.bs : j.ts[x].k = "cat" /\ TokSeqEq(e, t.bs[x], j.ts[x].ts)
       [] t.k = "rep"   -> j.k = "rep" /\ j.lo = t.lo /\ j.hi = t.hi
                           /\ j.ts[1].k = "cat" /\ TokSeqEq(e, t.bd, j.ts[1].ts)

ReaderAgrees ==
  (st = "done" /\ Prop = "TOK" /\ IsGlob /\ Built) =>
    LET p == Parse(O.e) IN
    p.st = "ok" =>
      (IF O.e = <<>> THEN O.tok.k = "lit" /\ O.tok.s = <<>>
       ELSE O.tok.k = "cat" /\ TokSeqEq(O.e, p.toks, O.tok.ts))
        \/ Dis("token_tree_differs", [tok |-> O.tok])

Seen == st = "done" => TRUE
=============================================================================
