"""bin/verify replay <file>: re-runs the check that produced a replay file and reports whether the recorded
violations recur on the current /repo tree (exit 1 if any recurs, 0 if none, 2 on tool errors)."""
import json
import os

from . import common as C


def run(path):
    with open(path) as f:
        d = json.load(f)
    prop = d["property"]
    tier = d.get("tier", "quick")
    recorded = {v["what"] for v in d["violations"]}
    from . import checks
    print("replaying %d recorded violation(s) of %s (%s tier) against /repo (tree %s, recorded on tree %s)" % (
        len(recorded), prop, tier, C.repo_hash(), d.get("repo_hash")))
    # the check rewrites its own replay file; keep the recorded one
    saved = path + ".recorded"
    os.replace(path, saved)
    try:
        rc = checks.CHECKS[prop](tier)
    except C.ToolError as e:
        os.replace(saved, path)
        print("TOOL-ERROR property=%s %s" % (prop, e))
        return 2
    now = set()
    new_path = os.path.join(C.REPLAYS, "%s.json" % prop)
    if rc == 1 and os.path.exists(new_path):
        with open(new_path) as f:
            now = {v["what"] for v in json.load(f)["violations"]}
    os.replace(saved, path)
    again = recorded & now
    for w in sorted(again)[:20]:
        print("  recurs: %s" % w)
    print("%d of %d recorded violations recur" % (len(again), len(recorded)))
    if again:
        print("VIOLATION property=%s replay=%s" % (prop, path))
        return 1
    return 0
