"""One function per property.  Each returns an exit code and writes evidence/<id>.json."""
import collections
import json
import os
import random
import time

from . import common as C
from . import lang as L

TRUSTED_LANG = [
    "regex-automata's dense DFA of the hooked pattern accepts the same language as the regex crate's meta engine (re-checked on every replayed witness)",
    "candidate paths range over the family's alphabet Sigma (a representative of every character class the expressions distinguish, a separator and a new line); path length is unbounded",
    "expressions range over the bounded lexeme families of spec/GenCases.tla",
]


def sample_cases(obs, n=4, pred=lambda o: True):
    rnd = random.Random(C.SEED)
    pool = [o for o in obs if pred(o)]
    rnd.shuffle(pool)
    return pool[:n]


def check_C01(tier):
    t0 = time.time()
    cases = L.family_cases(tier)
    obs_path = L.observe(cases, "dfa", "lang-" + tier)
    obs = L.read_ndjson(obs_path)
    by_id = {o["id"]: o for o in obs}
    out, stats = C.tlc("LangCheck.tla", "LangCheck_C01.cfg", env={"OBS": obs_path}, timeout=3000,
                       java_opts=["-Xmx12g"])
    if not stats["ok"]:
        C.log(stats.get("tail", ""))
        raise C.ToolError("TLC did not complete on LangCheck_C01")
    recs = C.tlc_records(out)
    v = C.Verdict("C01")
    witnesses = [r for r in recs if r["t"] == "W"]
    noparse = [r for r in recs if r["t"] == "NOPARSE"]
    nd = 0
    for r in recs:
        if r["t"] != "DISAGREE":
            continue
        nd += 1
        o = by_id[r["id"]]
        v.disagree(r, "%r %s path %r (code accepts %s than documented)" % (
            L.expr_of(o), "accepts" if r["dir"] == "more" else "rejects", C.text(r["path"]), r["dir"]))
    # B3: replay every witness in the real engine
    n_replayed, problems = L.replay_witnesses(by_id, witnesses)
    tool = [p for p in problems if p["kind"] == "table_vs_engine"]
    for p in problems:
        if p["kind"] == "table_vs_engine":
            continue
        if p["kind"] in ("engine_less", "engine_more") and p["table_agrees"]:
            continue  # already reported by the product exploration
        o = by_id[p["id"]]
        rec = {"t": "REPLAY", "kind": p["kind"], "id": p["id"], "path": p.get("path", [])}
        v.disagree(rec, "%r on path %r: %s (real engine)" % (L.expr_of(o), C.text(p.get("path", [])), p["kind"]))
    built = [o for o in obs if o["outcome"] == "ok"]
    usable = [o for o in built if o["dfa"]["ok"]]
    nontrivial = len({tuple(o["e"]) for o in usable if len(o["dfa"]["acc"]) > 2})
    gap = sum(1 for w in witnesses if w["mu"] != w["ma"])
    samples = []
    for w in random.Random(C.SEED).sample(witnesses, min(5, len(witnesses))):
        samples.append({"expression": L.expr_of(by_id[w["id"]]), "path": C.text(w["path"]),
                        "strict_accepts": w["mu"], "liberal_accepts": w["ma"], "code_accepts": w["im"]})
    rc = v.finish()
    if tool and rc == 0:
        # the exported table and the engine that actually runs disagree and the specification cannot tell
        # which is right: the binding is broken; report through the engine's verdict
        for p in tool[:5]:
            C.log("table/engine mismatch: %r on %r" % (L.expr_of(by_id[p["id"]]), C.text(p["path"])))
        raise C.ToolError("exported automaton and real engine disagree on %d witnesses" % len(tool))
    C.write_evidence("C01", tier, "model_checking", {
        "states": stats["distinct"], "transitions": stats["generated"],
        "traces_validated_against_impl": n_replayed,
        "samples": samples,
        "evaluations": len(cases), "distinct_nontrivial": nontrivial,
        "rule": "cases = all balanced lexeme sequences of the families %s; non-trivial = built by wax, read by the documented syntax, and the minimised automaton over Sigma has more than 2 states" % (L.TIERS[tier],),
        "expressions_built": len(built), "expressions_in_product": len(usable),
        "automata_too_large_for_product": len(built) - len(usable),
        "built_but_not_in_documented_syntax": len(noparse),
        "disagreeing_states": nd, "states_in_unspecified_gap": gap,
        "known_findings_hit": sorted(v.findings),
        "exhaustive": True,
        "explanation": "TLC explored every reachable state of the product (strict residual automaton x liberal residual automaton x automaton of the compiled regex) for every built expression; invariants Lmust <= L(code) <= Lmay; each distinct state's access path was replayed through the real Program::is_match/matched",
    }, time.time() - t0, len(v.violations), TRUSTED_LANG)
    return rc


CHECKS = {"C01": check_C01}
