"""One function per property.  Each returns an exit code and writes evidence/<id>.json."""
import collections
import json
import os
import random
import time

from . import common as C
from . import lang as L

TRUSTED_LANG = [
    "regex-automata's dense DFA of the hooked pattern accepts the same language as the regex crate's meta engine (re-checked on every replayed witness)",
    "candidate paths range over the family's alphabet Sigma (a representative of every character class the expressions distinguish, a separator and a new line); path length is unbounded",
    "expressions range over the bounded lexeme families of spec/GenCases.tla",
]


def sample_cases(obs, n=4, pred=lambda o: True):
    rnd = random.Random(C.SEED)
    pool = [o for o in obs if pred(o)]
    rnd.shuffle(pool)
    return pool[:n]


def check_C01(tier):
    t0 = time.time()
    cases = L.family_cases(tier)
    obs_path = L.observe(cases, "dfa", "lang-" + tier)
    obs = L.read_ndjson(obs_path)
    by_id = {o["id"]: o for o in obs}
    out, stats = C.tlc("LangCheck.tla", "LangCheck_C01.cfg", env={"OBS": obs_path}, timeout=3000,
                       java_opts=["-Xmx12g"])
    if not stats["ok"]:
        C.log(stats.get("tail", ""))
        raise C.ToolError("TLC did not complete on LangCheck_C01")
    recs = C.tlc_records(out)
    v = C.Verdict("C01")
    witnesses = [r for r in recs if r["t"] == "W"]
    noparse = [r for r in recs if r["t"] == "NOPARSE"]
    nd = 0
    for r in recs:
        if r["t"] != "DISAGREE":
            continue
        nd += 1
        o = by_id[r["id"]]
        v.disagree(r, "%r %s path %r (code accepts %s than documented)" % (
            L.expr_of(o), "accepts" if r["dir"] == "more" else "rejects", C.text(r["path"]), r["dir"]))
    # B3: replay every witness in the real engine
    n_replayed, problems = L.replay_witnesses(by_id, witnesses)
    tool = [p for p in problems if p["kind"] == "table_vs_engine"]
    for p in problems:
        if p["kind"] == "table_vs_engine":
            continue
        if p["kind"] in ("engine_less", "engine_more") and p["table_agrees"]:
            continue  # already reported by the product exploration
        o = by_id[p["id"]]
        rec = {"t": "REPLAY", "kind": p["kind"], "id": p["id"], "path": p.get("path", [])}
        v.disagree(rec, "%r on path %r: %s (real engine)" % (L.expr_of(o), C.text(p.get("path", [])), p["kind"]))
    built = [o for o in obs if o["outcome"] == "ok"]
    usable = [o for o in built if o["dfa"]["ok"]]
    nontrivial = len({tuple(o["e"]) for o in usable if len(o["dfa"]["acc"]) > 2})
    gap = sum(1 for w in witnesses if w["mu"] != w["ma"])
    samples = []
    for w in random.Random(C.SEED).sample(witnesses, min(5, len(witnesses))):
        samples.append({"expression": L.expr_of(by_id[w["id"]]), "path": C.text(w["path"]),
                        "strict_accepts": w["mu"], "liberal_accepts": w["ma"], "code_accepts": w["im"]})
    rc = v.finish()
    if tool and rc == 0:
        # the exported table and the engine that actually runs disagree and the specification cannot tell
        # which is right: the binding is broken; report through the engine's verdict
        for p in tool[:5]:
            C.log("table/engine mismatch: %r on %r" % (L.expr_of(by_id[p["id"]]), C.text(p["path"])))
        raise C.ToolError("exported automaton and real engine disagree on %d witnesses" % len(tool))
    C.write_evidence("C01", tier, "model_checking", {
        "states": stats["distinct"], "transitions": stats["generated"],
        "traces_validated_against_impl": n_replayed,
        "samples": samples,
        "evaluations": len(cases), "distinct_nontrivial": nontrivial,
        "rule": "cases = all balanced lexeme sequences of the families %s; non-trivial = built by wax, read by the documented syntax, and the minimised automaton over Sigma has more than 2 states" % (L.TIERS[tier],),
        "expressions_built": len(built), "expressions_in_product": len(usable),
        "automata_too_large_for_product": len(built) - len(usable),
        "built_but_not_in_documented_syntax": len(noparse),
        "disagreeing_states": nd, "states_in_unspecified_gap": gap,
        "known_findings_hit": sorted(v.findings),
        "exhaustive": True,
        "explanation": "TLC explored every reachable state of the product (strict residual automaton x liberal residual automaton x automaton of the compiled regex) for every built expression; invariants Lmust <= L(code) <= Lmay; each distinct state's access path was replayed through the real Program::is_match/matched",
    }, time.time() - t0, len(v.violations), TRUSTED_LANG)
    return rc


QUERY = {
    "C09": ("ExhaustiveSound", "patterns reporting is_exhaustive() == Always",
            "every canonical path beneath a matched canonical path is matched (obligation monitor)"),
    "C10": ("DepthSound", "all built patterns whose finite depth bounds are below 8",
            "every matched canonical path (rooted iff the pattern is) has a component count inside the reported bounds"),
    "C11": ("TextSound", "patterns reporting invariant text",
            "the matched language is exactly {text} (a subset when a class lists the separator)"),
    "C12": ("RootSound", "patterns reporting has_root() == Always",
            "every matched path begins with a separator"),
}


def query_check(prop, tier):
    t0 = time.time()
    inv, relevant, meaning = QUERY[prop]
    cases = L.all_cases(tier)
    obs_path = L.observe(cases, "dfa", "all-" + tier)
    obs = L.read_ndjson(obs_path)
    by_id = {o["id"]: o for o in obs}
    out, stats = C.tlc("QueryCheck.tla", "QueryCheck_%s.cfg" % prop, env={"OBS": obs_path, "PROP": prop}, timeout=3000,
                       java_opts=["-Xmx12g"])
    if not stats["ok"]:
        C.log(stats.get("tail", ""))
        raise C.ToolError("TLC did not complete on QueryCheck_%s" % prop)
    recs = C.tlc_records(out)
    v = C.Verdict(prop)
    entered = [r["id"] for r in recs if r["t"] == "IN"]
    witness = {}
    for r in recs:
        if r["t"] != "DISAGREE":
            continue
        o = by_id[r["id"]]
        v.disagree(r, "%r reports %s but path %r: %s" % (L.expr_of(o), reported(prop, o), C.text(r["path"]), r["what"]))
        witness.setdefault(r["id"], r)
    # observation-level clauses that need no product: validated record by record by ObsCheck
    obs_stats = None
    if prop == "C12":
        cases2 = L.family_cases(tier, L.TIERS_OBS[tier])
        obs2_path = L.observe(cases2, "tok", "obs-" + tier)
        by2 = {o["id"]: o for o in L.read_ndjson(obs2_path)}
        obs_stats, _ = run_obs("C12", "C12", obs2_path, by2, v, lambda r, o: "glob %r: %s" % (L.expr_of(o), r["what"]))
    # B3: replay one disagreement witness per case, and a sample of accepted/rejected paths, in the real engine
    n_replayed = 0
    if witness:
        ws = [{"id": i, "path": r["path"], "mu": False, "ma": True, "im": None} for i, r in witness.items()]
        n_replayed += replay_paths(by_id, ws)
    n_replayed += replay_table_sample(by_id, entered, prop)
    if not entered:
        raise C.ToolError("vacuous run: no case entered the product for %s" % prop)
    samples = [{"pattern": L.expr_of(by_id[i]), "reported": reported(prop, by_id[i])} for i in random.Random(C.SEED).sample(entered, min(5, len(entered)))]
    rc = v.finish()
    C.write_evidence(prop, tier, "model_checking", {
        "states": stats["distinct"] + (obs_stats["distinct"] if obs_stats else 0),
        "transitions": stats["generated"] + (obs_stats["generated"] if obs_stats else 0),
        "traces_validated_against_impl": n_replayed + (obs_stats["distinct"] // 2 if obs_stats else 0),
        "samples": samples,
        "evaluations": len(cases), "distinct_nontrivial": len(set(entered)),
        "rule": "cases = lexeme families %s plus `any` combinations of a pool of %d patterns (text, compiled and nested); non-trivial = %s (these enter the product)" % (L.TIERS[tier], len(L.ANY_POOL), relevant),
        "contract": meaning,
        "disagreeing_records": sum(1 for r in recs if r["t"] == "DISAGREE"),
        "known_findings_hit": sorted(v.findings),
        "exhaustive": True,
    }, time.time() - t0, len(v.violations), TRUSTED_LANG)
    return rc


def reported(prop, o):
    q = o["q"]
    if prop == "C09":
        return "is_exhaustive=%s" % q["exh"]
    if prop == "C10":
        return "depth=%s..%s" % (q["dlo"], "inf" if q["dhi"] == -1 else q["dhi"])
    if prop == "C11":
        return "text=%r" % C.text(q["text"])
    return "has_root=%s" % q["root"]


def table_accepts(o, path):
    q = 0
    for c in path:
        q = o["dfa"]["delta"][q][o["sigma"].index(c)] - 1
    return o["dfa"]["acc"][q]


def replay_paths(by_id, ws):
    """replays paths in the real engine and requires the exported table to agree with it"""
    for w in ws:
        w["im"] = table_accepts(by_id[w["id"]], w["path"])
        w["mu"], w["ma"] = False, True
    n, problems = L.replay_witnesses(by_id, ws)
    bad = [p for p in problems if p["kind"] == "table_vs_engine"]
    if bad:
        p = bad[0]
        raise C.ToolError("exported automaton and real engine disagree: %r on %r" % (L.expr_of(by_id[p["id"]]), C.text(p["path"])))
    return n


def replay_table_sample(by_id, ids, prop, per_case=3, max_cases=1500):
    """binds the exported tables to the real engine on seeded random paths"""
    rnd = random.Random(C.SEED + 17)
    ids = sorted(set(ids))
    rnd.shuffle(ids)
    ws = []
    for i in ids[:max_cases]:
        o = by_id[i]
        for _ in range(per_case):
            path = [rnd.choice(o["sigma"]) for _ in range(rnd.randint(0, 6))]
            ws.append({"id": i, "path": path})
    return replay_paths(by_id, ws)


def run_obs(prop, cfg_prop, obs_path, by_id, v, describe):
    """one ObsCheck run; feeds disagreements into v; returns (stats, n_disagreements, spec_errors)"""
    out, stats = C.tlc("ObsCheck.tla", "ObsCheck_%s.cfg" % cfg_prop, env={"OBS": obs_path, "PROP": cfg_prop}, timeout=3000,
                       java_opts=["-Xmx12g"])
    if not stats["ok"]:
        C.log(stats.get("tail", ""))
        raise C.ToolError("TLC did not complete on ObsCheck_%s" % cfg_prop)
    recs = C.tlc_records(out)
    spec = [r for r in recs if r["t"] == "SPEC"]
    if spec:
        raise C.ToolError("the specification is inconsistent with itself on %d cases, e.g. %s on %r" % (
            len(spec), spec[0]["what"], L.expr_of(by_id[spec[0]["id"]])))
    n = 0
    for r in recs:
        if r["t"] == "DISAGREE":
            n += 1
            v.disagree(r, describe(r, by_id[r["id"]]))
    return stats, n


def check_C06(tier):
    t0 = time.time()
    cases = L.family_cases(tier, L.TIERS_OBS[tier])
    obs_path = L.observe(cases, "tok", "obs-" + tier)
    obs = L.read_ndjson(obs_path)
    by_id = {o["id"]: o for o in obs}
    v = C.Verdict("C06")

    def describe(r, o):
        x = r.get("x", {})
        return "%r: %s (outcome %s %s, documented violations %s)" % (L.expr_of(o), r["what"], o["outcome"], o["ekind"], x.get("viol"))
    stats, n1 = run_obs("C06", "C06", obs_path, by_id, v, describe)
    # growth: the nom parser's token tree equals the TLA+ reader's, spans included
    stats2, n2 = run_obs("C06", "TOK", obs_path, by_id, v, lambda r, o: "%r: the parser's token tree differs from the documented reading" % L.expr_of(o))
    built = [o for o in obs if o["outcome"] == "ok"]
    rejected = [o for o in obs if o["outcome"] in ("parse", "rule")]
    samples = [{"expression": L.expr_of(o), "outcome": o["outcome"], "rule": o["ekind"]} for o in sample_cases(obs, 6, lambda o: o["outcome"] in ("rule", "ok") and len(o["e"]) > 4)]
    rc = v.finish()
    C.write_evidence("C06", tier, "model_checking", {
        "states": stats["distinct"] + stats2["distinct"], "transitions": stats["generated"] + stats2["generated"],
        "traces_validated_against_impl": len(obs) + len(built),
        "samples": samples,
        "evaluations": len(obs), "distinct_nontrivial": len({tuple(o["e"]) for o in obs if any(c in o["e"] for c in (123, 60))}),
        "rule": "cases = all balanced lexeme sequences of the families %s (every arrangement of branches up to that size, every position, sibling branches); non-trivial = contains an alternation or a repetition" % (L.TIERS_OBS[tier],),
        "built": len(built), "rejected": len(rejected),
        "disagreements": n1 + n2, "known_findings_hit": sorted(v.findings),
        "spec_self_consistency": "GlobRules!RulesAgree (semantic = context-free definition) and NeverSometimesRooted held on every case",
        "unspecified_clauses": ["U1: a repetition body that begins and ends with a boundary but repeats at most once", "a flag inside a tree wildcard or at the very end of a sub-expression (out of the property's domain)", "bounds of more than three digits (size rule not modelled)"],
        "exhaustive": True,
    }, time.time() - t0, len(v.violations), [
        "TLC; the observation record is what Glob::new returned (logged after the call returns)",
        "expressions range over the bounded lexeme families of spec/GenCases.tla"])
    return rc


def check_C17(tier):
    t0 = time.time()
    cases = L.family_cases(tier, L.TIERS_OBS[tier]) 
    cases += L.text_cases(tier, len(cases) + 1)
    obs_path = L.observe(cases, "part", "span-" + tier)
    obs = L.read_ndjson(obs_path)
    by_id = {o["id"]: o for o in obs}
    v = C.Verdict("C17")
    stats, n = run_obs("C17", "C17", obs_path, by_id, v, lambda r, o: "%r: %s %s" % (L.expr_of(o), r["what"], json.dumps(r.get("x"))))
    with_spans = [o for o in obs if o.get("espans") or (o["outcome"] == "ok" and o.get("q", {}).get("caps"))]
    samples = [{"expression": L.expr_of(o), "outcome": o["outcome"], "error_spans": o.get("espans"), "capture_spans": o.get("q", {}).get("caps")} for o in sample_cases(with_spans, 5, lambda o: len(o["e"]) > 3)]
    rc = v.finish()
    C.write_evidence("C17", tier, "model_checking", {
        "states": stats["distinct"], "transitions": stats["generated"],
        "traces_validated_against_impl": len(obs),
        "samples": samples,
        "evaluations": len(obs), "distinct_nontrivial": len(with_spans),
        "rule": "cases = lexeme families %s plus every string up to the tier's length over the meta-characters and a 2-byte and a 3-byte character; non-trivial = the record carries at least one error or capture span" % (L.TIERS_OBS[tier],),
        "disagreements": n, "known_findings_hit": sorted(v.findings), "exhaustive": True,
    }, time.time() - t0, len(v.violations), ["TLC; byte offsets are computed by the specification from code points (GlobSyntax!ByteOff)"])
    return rc


CHECKS = {"C01": check_C01, "C06": check_C06, "C17": check_C17}
for _p in QUERY:
    CHECKS[_p] = (lambda p: (lambda tier: query_check(p, tier)))(_p)
