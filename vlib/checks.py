"""One function per property.  Each returns an exit code and writes evidence/<id>.json."""
import collections
import json
import os
import random
import shutil
import time

from . import common as C
from . import lang as L

TRUSTED_LANG = [
    "regex-automata's dense DFA of the hooked pattern accepts the same language as the regex crate's meta engine (re-checked on every replayed witness)",
    "candidate paths range over the family's alphabet Sigma (a representative of every character class the expressions distinguish, a separator and a new line); path length is unbounded",
    "expressions range over the bounded lexeme families of spec/GenCases.tla",
]


def sample_cases(obs, n=4, pred=lambda o: True):
    rnd = random.Random(C.SEED)
    pool = [o for o in obs if pred(o)]
    rnd.shuffle(pool)
    return pool[:n]


def lang_product(tier):
    """the C01 product exploration (shared by C01 and C04): cached per repo tree, harness and spec"""
    cases = L.family_cases(tier, L.TIERS_PRODUCT[tier])
    cases += L.tree_cases(tier, len(cases) + 1)
    obs_path = L.observe(cases, "dfa", "lang-" + tier)
    cpath = obs_path + ".product-%s.json" % C.module_hash("LangCheck", "LangCheck_C01.cfg")
    if os.path.exists(cpath):
        with open(cpath) as f:
            d = json.load(f)
        return cases, obs_path, d["recs"], d["stats"]
    out, stats = C.tlc("LangCheck.tla", "LangCheck_C01.cfg", env={"OBS": obs_path}, timeout=3000,
                       java_opts=["-Xmx12g"])
    if not stats["ok"]:
        C.log(stats.get("tail", ""))
        raise C.ToolError("TLC did not complete on LangCheck_C01")
    recs = C.tlc_records(out)
    with open(cpath + C.TMP, "w") as f:
        json.dump({"recs": recs, "stats": stats}, f)
    os.replace(cpath + C.TMP, cpath)
    return cases, obs_path, recs, stats


def check_C01(tier):
    t0 = time.time()
    cases, obs_path, recs, stats = lang_product(tier)
    obs = L.read_ndjson(obs_path)
    by_id = {o["id"]: o for o in obs}
    v = C.Verdict("C01")
    witnesses = [r for r in recs if r["t"] == "W"]
    noparse = [r for r in recs if r["t"] == "NOPARSE"]
    spec_bad = [r for r in recs if r["t"] == "SPEC"]
    if spec_bad:
        raise C.ToolError("the specification is inconsistent with itself (%s) on %r, path %r" % (
            spec_bad[0]["what"], L.expr_of(by_id[spec_bad[0]["id"]]), C.text(spec_bad[0]["path"])))
    nd = 0
    for r in recs:
        if r["t"] != "DISAGREE":
            continue
        nd += 1
        o = by_id[r["id"]]
        v.disagree(r, "%r %s path %r (code accepts %s than documented)" % (
            L.expr_of(o), "accepts" if r["dir"] == "more" else "rejects", C.text(r["path"]), r["dir"]), pin=C.pin_of(o))
    # B3: replay every witness in the real engine
    n_replayed, problems = L.replay_witnesses(by_id, witnesses)
    tool = [p for p in problems if p["kind"] == "table_vs_engine"]
    for p in problems:
        if p["kind"] == "table_vs_engine":
            continue
        if p["kind"] in ("engine_less", "engine_more") and p["table_agrees"]:
            continue  # already reported by the product exploration
        o = by_id[p["id"]]
        rec = {"t": "REPLAY", "kind": p["kind"], "id": p["id"], "path": p.get("path", [])}
        v.disagree(rec, "%r on path %r: %s (real engine)" % (L.expr_of(o), C.text(p.get("path", [])), p["kind"]))
    # directed replays: the text a glob reports as invariant (and its display) is run through the real is_match /
    # matched and judged by the documented language itself (spec/Member.tla), whatever the exported automaton says
    directed = []
    for o in obs:
        if o["outcome"] != "ok" or o.get("qpanic"):
            continue
        q = o["q"]
        for path in ([q["text"]] if q["has_text"] else []):
            directed.append({"id": len(directed) + 1, "case": o["id"], "e": o["e"], "path": path})
    n_directed = 0
    if directed:
        dpath = os.path.join(os.path.dirname(obs_path), "directed-%s-%d.ndjson" % (tier, os.getpid()))
        L.write_ndjson(dpath, directed)
        try:
            mout, mst = C.tlc("Member.tla", "Member.cfg", env={"OBS": dpath}, timeout=3000, java_opts=["-Xmx8g"])
        finally:
            os.remove(dpath)
        if not mst["ok"]:
            C.log(mst.get("tail", ""))
            raise C.ToolError("TLC did not complete on Member")
        verdict = {r["id"]: r for r in C.tlc_records(mout) if r.get("t") == "MEMBER"}
        ws = [{"id": d["case"], "path": d["path"], "mu": verdict[d["id"]]["mu"], "ma": verdict[d["id"]]["ma"], "im": None, "_d": d["id"]}
              for d in directed if d["id"] in verdict and verdict[d["id"]]["parses"]]
        for w in ws:
            w["im"] = table_accepts(by_id[w["id"]], w["path"]) if by_id[w["id"]]["dfa"]["ok"] and all(c in by_id[w["id"]]["sigma"] for c in w["path"]) else None
        n_directed, dproblems = L.replay_witnesses(by_id, ws)
        for p in dproblems:
            if p["kind"] == "table_vs_engine" and p.get("table") is None:
                continue     # no automaton to compare with
            o = by_id[p["id"]]
            rec = {"t": "REPLAY", "kind": p["kind"], "id": p["id"], "path": p.get("path", []), "directed": True}
            v.disagree(rec, "%r on its reported invariant text %r: %s (real engine)" % (L.expr_of(o), C.text(p.get("path", [])), p["kind"]))
    built = [o for o in obs if o["outcome"] == "ok"]
    usable = [o for o in built if o["dfa"]["ok"]]
    nontrivial = len({tuple(o["e"]) for o in usable if len(o["dfa"]["acc"]) > 2})
    gap = sum(1 for w in witnesses if w["mu"] != w["ma"])
    samples = []
    for w in random.Random(C.SEED).sample(witnesses, min(5, len(witnesses))):
        samples.append({"expression": L.expr_of(by_id[w["id"]]), "path": C.text(w["path"]),
                        "strict_accepts": w["mu"], "liberal_accepts": w["ma"], "code_accepts": w["im"]})
    rc = v.finish()
    if tool and rc == 0:
        # the exported table and the engine that actually runs disagree and the specification cannot tell
        # which is right: the binding is broken; report through the engine's verdict
        for p in tool[:5]:
            C.log("table/engine mismatch: %r on %r" % (L.expr_of(by_id[p["id"]]), C.text(p["path"])))
        raise C.ToolError("exported automaton and real engine disagree on %d witnesses" % len(tool))
    C.write_evidence("C01", tier, "model_checking", {
        "states": stats["distinct"], "transitions": stats["generated"],
        "traces_validated_against_impl": n_replayed + n_directed,
        "directed_replays_of_reported_invariant_text": n_directed,
        "samples": samples,
        "evaluations": len(cases), "distinct_nontrivial": nontrivial,
        "rule": "cases = all balanced lexeme sequences of the families %s, mini and flags; non-trivial = built by wax, read by the documented syntax, and the minimised automaton over Sigma has more than 2 states" % (L.TIERS[tier],),
        "expressions_built": len(built), "expressions_in_product": len(usable),
        "automata_too_large_for_product": len(built) - len(usable),
        "built_but_not_in_documented_syntax": len(noparse),
        "disagreeing_states": nd, "states_in_unspecified_gap": gap,
        "known_findings_hit": sorted(v.findings),
        "exhaustive": True,
        "explanation": "TLC explored every reachable state of the product (strict residual automaton x liberal residual automaton x automaton of the compiled regex) for every built expression; invariants Lmust <= L(code) <= Lmay and (self-consistency of the specification) Lmust <= Lmay; each distinct state's access path was replayed through the real Program::is_match/matched",
    }, time.time() - t0, len(v.violations), TRUSTED_LANG)
    return rc


QUERY = {
    "C09": ("ExhaustiveSound", "patterns reporting is_exhaustive() == Always",
            "every canonical path beneath a matched canonical path is matched (obligation monitor)"),
    "C10": ("DepthSound", "all built patterns whose finite depth bounds are below 8",
            "every matched canonical path (rooted iff the pattern is) has a component count inside the reported bounds"),
    "C11": ("TextSound", "patterns reporting invariant text",
            "the matched language is exactly {text} (a subset when a class lists the separator)"),
    "C12": ("RootSound", "patterns reporting has_root() == Always",
            "every matched path begins with a separator"),
}


def query_check(prop, tier):
    t0 = time.time()
    inv, relevant, meaning = QUERY[prop]
    # the verdict-style contracts (only patterns reporting `always` enter the product) also take the nested contexts
    nest = "exhaustive" if prop == "C09" else (prop == "C12")
    # C11: flag placement matters for what counts as invariant text (a literal without case under (?i))
    extra = [("flags", 6 if tier == "quick" else 7)] if prop == "C11" else []
    cases = L.all_cases(tier, with_nest=nest, extra=extra)
    if prop == "C11":
        # the same contract for globs that own their expression (into_owned) or were parsed from a string: the text they
        # report is computed from a re-owned token tree, what they match from the program compiled before
        rndo = random.Random(C.SEED + 11)
        for c in [c for c in cases if c["kind"] == "glob" and c["fam"] in ("case", "flags", "cls2", "punct")]:
            x = rndo.random()
            if x < (0.3 if tier == "quick" else 1.0):
                cases.append(dict(c, id=len(cases) + 1, mode="own" if x < (0.15 if tier == "quick" else 0.5) else "parsed"))
    obs_path = L.observe(cases, "dfa", ("alle-" if nest == "exhaustive" else "alln-" if nest else "allf-" if extra else "all-") + tier)
    obs = L.read_ndjson(obs_path)
    by_id = {o["id"]: o for o in obs}
    out, stats = C.tlc("QueryCheck.tla", "QueryCheck_%s.cfg" % prop, env={"OBS": obs_path, "PROP": prop}, timeout=3000,
                       java_opts=["-Xmx12g"])
    if not stats["ok"]:
        C.log(stats.get("tail", ""))
        raise C.ToolError("TLC did not complete on QueryCheck_%s" % prop)
    recs = C.tlc_records(out)
    v = C.Verdict(prop)
    entered = [r["id"] for r in recs if r["t"] == "IN"]
    witness = {}
    for r in recs:
        if r["t"] != "DISAGREE":
            continue
        o = by_id[r["id"]]
        v.disagree(r, "%r reports %s but path %r: %s" % (L.expr_of(o), reported(prop, o), C.text(r["path"]), r["what"]), pin=C.pin_of(o))
        witness.setdefault(r["id"], r)
    # observation-level clauses that need no product: validated record by record by ObsCheck
    obs_stats = None
    if prop == "C12":
        cases2 = L.family_cases(tier, L.TIERS_OBS[tier])
        obs2_path = L.observe(cases2, "tok", "obs-" + tier)
        by2 = {o["id"]: o for o in L.read_ndjson(obs2_path)}
        obs_stats, _ = run_obs("C12", "C12", obs2_path, by2, v, lambda r, o: "glob %r: %s" % (L.expr_of(o), r["what"]))
    # B3: replay one disagreement witness per case, and a sample of accepted/rejected paths, in the real engine
    n_replayed = 0
    if witness:
        ws = [{"id": i, "path": r["path"], "mu": False, "ma": True, "im": None} for i, r in witness.items()]
        n_replayed += replay_paths(by_id, ws)
    n_replayed += replay_table_sample(by_id, entered, prop)
    if not entered:
        raise C.ToolError("vacuous run: no case entered the product for %s" % prop)
    samples = [{"pattern": L.expr_of(by_id[i]), "reported": reported(prop, by_id[i])} for i in random.Random(C.SEED).sample(entered, min(5, len(entered)))]
    rc = v.finish()
    C.write_evidence(prop, tier, "model_checking", {
        "states": stats["distinct"] + (obs_stats["distinct"] if obs_stats else 0),
        "transitions": stats["generated"] + (obs_stats["generated"] if obs_stats else 0),
        "traces_validated_against_impl": n_replayed + (obs_stats["distinct"] // 2 if obs_stats else 0),
        "samples": samples,
        "evaluations": len(cases), "distinct_nontrivial": len(set(entered)),
        "rule": "cases = lexeme families %s, %s concatenated units U1 M U2 of spec/GenSeq.tla (bodies, alternations and repetitions of bodies: every pair of depth termination states under concatenation, alternation and repetition) plus `any` combinations of a pool of %d patterns (text, compiled and nested); non-trivial = %s (these enter the product)" % (L.TIERS[tier], "a seeded 35%% sample of the" if tier == "quick" else "all", len(L.ANY_POOL), relevant),
        "contract": meaning,
        "disagreeing_records": sum(1 for r in recs if r["t"] == "DISAGREE"),
        "known_findings_hit": sorted(v.findings),
        "exhaustive": True,
    }, time.time() - t0, len(v.violations), TRUSTED_LANG)
    return rc


def reported(prop, o):
    q = o["q"]
    if prop == "C09":
        return "is_exhaustive=%s" % q["exh"]
    if prop == "C10":
        return "depth=%s..%s" % (q["dlo"], "inf" if q["dhi"] == -1 else q["dhi"])
    if prop == "C11":
        return "text=%r" % C.text(q["text"])
    return "has_root=%s" % q["root"]


def table_accepts(o, path):
    q = 0
    for c in path:
        q = o["dfa"]["delta"][q][o["sigma"].index(c)] - 1
    return o["dfa"]["acc"][q]


def replay_paths(by_id, ws):
    """replays paths in the real engine and requires the exported table to agree with it"""
    for w in ws:
        w["im"] = table_accepts(by_id[w["id"]], w["path"])
        w["mu"], w["ma"] = False, True
    n, problems = L.replay_witnesses(by_id, ws)
    bad = [p for p in problems if p["kind"] == "table_vs_engine"]
    if bad:
        p = bad[0]
        raise C.ToolError("exported automaton and real engine disagree: %r on %r" % (L.expr_of(by_id[p["id"]]), C.text(p["path"])))
    return n


def replay_table_sample(by_id, ids, prop, per_case=3, max_cases=1500):
    """binds the exported tables to the real engine on seeded random paths"""
    rnd = random.Random(C.SEED + 17)
    ids = sorted(set(ids))
    rnd.shuffle(ids)
    ws = []
    for i in ids[:max_cases]:
        o = by_id[i]
        for _ in range(per_case):
            path = [rnd.choice(o["sigma"]) for _ in range(rnd.randint(0, 6))]
            ws.append({"id": i, "path": path})
    return replay_paths(by_id, ws)


def run_obs(prop, cfg_prop, obs_path, by_id, v, describe):
    """one ObsCheck run; feeds disagreements into v; returns (stats, n_disagreements, spec_errors)"""
    out, stats = C.tlc("ObsCheck.tla", "ObsCheck_%s.cfg" % cfg_prop, env={"OBS": obs_path, "PROP": cfg_prop}, timeout=3000,
                       java_opts=["-Xmx12g"])
    if not stats["ok"]:
        C.log(stats.get("tail", ""))
        raise C.ToolError("TLC did not complete on ObsCheck_%s" % cfg_prop)
    recs = C.tlc_records(out)
    spec = [r for r in recs if r["t"] == "SPEC"]
    if spec:
        raise C.ToolError("the specification is inconsistent with itself on %d cases, e.g. %s on %r" % (
            len(spec), spec[0]["what"], L.expr_of(by_id[spec[0]["id"]])))
    n = 0
    for r in recs:
        if r["t"] == "DISAGREE":
            n += 1
            v.disagree(r, describe(r, by_id[r["id"]]), pin=C.pin_of(by_id[r["id"]]))
    return stats, n


def check_C06(tier):
    t0 = time.time()
    cases = L.family_cases(tier, L.TIERS_OBS[tier])
    cases += L.nest_cases(tier, len(cases) + 1)
    cases += L.tree_cases(tier, len(cases) + 1)
    obs_path = L.observe(cases, "tok,rules", "obs-" + tier)
    obs = L.read_ndjson(obs_path)
    by_id = {o["id"]: o for o in obs}
    v = C.Verdict("C06")
    if not C.rule_hook_present():
        raise C.ToolError("the tree under test has no rule checker hook (src/verif.rs: RuleVisit)")

    def describe(r, o):
        x = r.get("x", {})
        return "%r: %s (outcome %s %s, documented violations %s)" % (L.expr_of(o), r["what"], o["outcome"], o["ekind"], x.get("viol"))
    stats, n1 = run_obs("C06", "C06", obs_path, by_id, v, describe)
    # growth: the nom parser's token tree equals the TLA+ reader's, spans included
    stats2, n2 = run_obs("C06", "TOK", obs_path, by_id, v, lambda r, o: "%r: the parser's token tree differs from the documented reading" % L.expr_of(o))
    # the rule checker as a machine (RuleImpl.tla): the recorded visits of the real rule::branch are validated against
    # it; a branch checked against a context that is not its own contradicts C06 whatever the verdict
    out3, stats3 = C.tlc("RuleTrace.tla", "RuleTrace.cfg", env={"OBS": obs_path, "RT_SELFCHECK_EVERY": "4" if tier == "quick" else "1"}, timeout=3000, java_opts=["-Xmx12g"])
    if not stats3["ok"]:
        C.log(stats3.get("tail", ""))
        raise C.ToolError("TLC did not complete on RuleTrace")
    n3 = 0
    impl_notes = collections.Counter()
    for r in C.tlc_records(out3):
        o = by_id[r["id"]]
        if r["t"] == "SPEC":
            raise C.ToolError("RuleImpl.tla is inconsistent with the rest of the specification: %s on %r" % (r["what"], L.expr_of(o)))
        if r["t"] == "IMPL":
            if not impl_notes[r["what"]]:
                C.log("NOTE: the rule checker no longer follows the pinned algorithm (RuleImpl.tla): %s on %r (further ones are counted in the evidence)" % (r["what"], L.expr_of(o)))
            impl_notes[r["what"]] += 1
        if r["t"] == "DISAGREE":
            n3 += 1
            v.disagree(r, "%r: %s: the rule checker visited the branch at bytes %s with context left %s / right %s, its own neighbours are %s / %s" % (
                L.expr_of(o), r["what"], r["got"]["s"], r["got"]["l"], r["got"]["r"], r["expected"]["l"], r["expected"]["r"]))
    visits = sum(len(o.get("rtrace", [])) for o in obs)
    built = [o for o in obs if o["outcome"] == "ok"]
    rejected = [o for o in obs if o["outcome"] in ("parse", "rule")]
    samples = [{"expression": L.expr_of(o), "outcome": o["outcome"], "rule": o["ekind"]} for o in sample_cases(obs, 6, lambda o: o["outcome"] in ("rule", "ok") and len(o["e"]) > 4)]
    rc = v.finish()
    C.write_evidence("C06", tier, "model_checking", {
        "states": stats["distinct"] + stats2["distinct"] + stats3["distinct"], "transitions": stats["generated"] + stats2["generated"] + stats3["generated"],
        "traces_validated_against_impl": len(obs) + len(built) + sum(1 for o in obs if o.get("rtrace")),
        "rule_checker_machine": {"recorded_visits": visits, "records_with_visits": sum(1 for o in obs if o.get("rtrace")),
                                 "states": stats3["distinct"], "own_context_disagreements": n3, "pinned_algorithm_notes": dict(impl_notes),
                                 "what": "RuleTrace.tla: every recorded visit of rule::branch checks a branch token against its own neighbours (C06); the recording is a behaviour of the first-in first-out machine of RuleImpl.tla; the machine visits every branch once with its own context and its verdict is the documented one up to KF23 / KF24 (checked on every case)"},
        "samples": samples,
        "evaluations": len(obs), "distinct_nontrivial": len({tuple(o["e"]) for o in obs if any(c in o["e"] for c in (123, 60))}),
        "rule": "cases = all balanced lexeme sequences of the families %s (every arrangement of branches up to that size) plus %s the two-level nested branch contexts of spec/GenNest.tla (every combination of left/right neighbours at both levels, alternations and repetitions at both levels, bodies beginning / ending with boundaries and wildcards); non-trivial = contains an alternation or a repetition" % (L.TIERS_OBS[tier], "a seeded 8% sample of" if tier == "quick" else "all of"),
        "built": len(built), "rejected": len(rejected),
        "disagreements": n1 + n2 + n3, "known_findings_hit": sorted(v.findings),
        "spec_self_consistency": "GlobRules!RulesAgree (semantic = context-free definition) and NeverSometimesRooted held on every case",
        "unspecified_clauses": ["U1: a repetition body that begins and ends with a boundary but repeats at most once", "a flag inside a tree wildcard or at the very end of a sub-expression (out of the property's domain)", "bounds of more than three digits (size rule not modelled)"],
        "exhaustive": True,
    }, time.time() - t0, len(v.violations), [
        "TLC; the observation record is what Glob::new returned (logged after the call returns)",
        "expressions range over the bounded lexeme families of spec/GenCases.tla"])
    return rc


def check_C17(tier):
    t0 = time.time()
    cases = L.family_cases(tier, L.TIERS_OBS[tier]) 
    cases += L.text_cases(tier, len(cases) + 1)
    obs_path = L.observe(cases, "part", "span-" + tier)
    obs = L.read_ndjson(obs_path)
    by_id = {o["id"]: o for o in obs}
    v = C.Verdict("C17")
    stats, n = run_obs("C17", "C17", obs_path, by_id, v, lambda r, o: "%r: %s %s" % (L.expr_of(o), r["what"], json.dumps(r.get("x"))))
    with_spans = [o for o in obs if o.get("espans") or (o["outcome"] == "ok" and o.get("q", {}).get("caps"))]
    samples = [{"expression": L.expr_of(o), "outcome": o["outcome"], "error_spans": o.get("espans"), "capture_spans": o.get("q", {}).get("caps")} for o in sample_cases(with_spans, 5, lambda o: len(o["e"]) > 3)]
    rc = v.finish()
    C.write_evidence("C17", tier, "model_checking", {
        "states": stats["distinct"], "transitions": stats["generated"],
        "traces_validated_against_impl": len(obs),
        "samples": samples,
        "evaluations": len(obs), "distinct_nontrivial": len(with_spans),
        "rule": "cases = lexeme families %s plus every string up to the tier's length over the meta-characters and a 2-byte and a 3-byte character; non-trivial = the record carries at least one error or capture span" % (L.TIERS_OBS[tier],),
        "disagreements": n, "known_findings_hit": sorted(v.findings), "exhaustive": True,
    }, time.time() - t0, len(v.violations), ["TLC; byte offsets are computed by the specification from code points (GlobSyntax!ByteOff)"])
    return rc


def adversarial_cases(tier, first_id):
    """C05: bounds around the machine word in every bound position and nesting, deep nesting, seeded random
    UTF-8 (DESIGN.md section 8, C05)"""
    rnd = random.Random(C.SEED)
    big = ["0", "1", "2", "65535", "65536", "4294967295", "4294967296", "9223372036854775807", "9223372036854775808",
           "18446744073709551615", "18446744073709551616", "99999999999999999999999"]
    texts = []
    bodies = ["a", "ab", "a/", "?", "[a]", "*/", "{a,b}", "a*"]
    for b in bodies:
        for x in big:
            texts.append(("bound", "<%s:%s>" % (b, x)))
            texts.append(("bound", "<%s:%s,>" % (b, x)))
            texts.append(("bound", "<%s:0,%s>" % (b, x)))
            texts.append(("bound", "<%s:%s,%s>" % (b, x, x)))
            texts.append(("bound", "x<%s:1,%s>y" % (b, x)))
    for x in big:
        for y in big:
            texts.append(("bound2", "<<a:%s>:%s>" % (x, y)))
            texts.append(("bound2", "<a:%s,%s>" % (x, y)))
            texts.append(("bound2", "<a:%s><b:%s,>" % (x, y)))
            texts.append(("bound2", "{<a:%s>,<b/:%s,>}" % (x, y)))
            texts.append(("bound2", "*<a:0,%s><b:%s,>" % (x, y)))
    depths = [10, 50, 100, 130, 300, 1000] + ([3000, 20000] if tier == "thorough" else [3000])
    for n in depths:
        for o, c_ in (("<", ">"), ("{", "}"), ("<", ":2>"), ("{a,", "}"), ("<a/", ":1,2>"), ("[", "]"), ("(?i", ")")):
            texts.append(("nest%d" % n, o * n + "a" + c_ * n))
        texts.append(("nest%d" % n, "a/" * n + "b"))
        texts.append(("nest%d" % n, "(?i)" * n + "a"))
        texts.append(("nest%d" % n, "{" * n))
        texts.append(("nest%d" % n, "<" * n))
        texts.append(("nest%d" % n, "?" * n))
        texts.append(("nest%d" % n, "**/" * n))
        texts.append(("nest%d" % n, "[" + "a" * n + "]"))
    # character classes: ascending, equal and descending ranges, negated or not, escaped members, in every context
    members = ["a", "z", "0", "9", "A", "é", "α", "β", "/", ".", "\\-", "\\]", "!", "金"]
    for x in members:
        for y in members:
            for cls in ("[%s-%s]" % (x, y), "[!%s-%s]" % (x, y), "[%s-%sq]" % (x, y), "[!q%s-%s]" % (x, y)):
                texts.append(("class", cls))
                texts.append(("class", "a%sb" % cls))
            texts.append(("class", "{q,[!%s-%s]}" % (x, y)))
            texts.append(("class", "<[%s-%s]:1,2>" % (x, y)))
            texts.append(("class", "(?i)[!%s-%s]/**" % (x, y)))
    alphabet = list("?*$:<>()[]{},\\-!/aA.\n") + ["é", "金", "\u0301", "\U0001F600", "\u212a", "ǅ", "\x00", "\x7f"]
    for _ in range(3000 if tier == "quick" else 30000):
        n = rnd.randint(1, 12)
        texts.append(("random", "".join(rnd.choice(alphabet) for _ in range(n))))
    cases = []
    for desc, t in texts:
        cases.append({"id": first_id + len(cases), "kind": "glob", "fam": "adv", "desc": desc, "e": C.cps(t)})
    return cases


def check_C05(tier):
    t0 = time.time()
    # (multi-byte characters next to classes, flags, escapes and faults: case, cls2, errs)
    fams = [("core", 5), ("mini", 6), ("case", 4), ("cls2", 3), ("errs", 4), ("bnd", 4), ("punct", 3)] if tier == "quick" else L.TIERS_OBS["thorough"]
    cases = L.family_cases(tier, fams)
    cases += L.text_cases(tier, len(cases) + 1)
    cases += adversarial_cases(tier, len(cases) + 1)
    import hashlib
    key = hashlib.sha256(json.dumps(cases, separators=(",", ":")).encode()).hexdigest()[:12]
    d = C.cache_dir("obs", "%s-%s" % (C.repo_hash(), C.harness_hash()))
    os.utime(d)
    path = os.path.join(d, "total-%s-%s.ndjson" % (tier, key))
    if not os.path.exists(path):
        cpath = path + ".cases"
        L.write_ndjson(cpath, cases)
        t1 = time.time()
        C.run_wv(["total", "--threads", str(max(2, C.WORKERS)), "--timeout", "60"], stdin_path=cpath, stdout_path=path + C.TMP, timeout=7000)
        os.replace(path + C.TMP, path)
        os.remove(cpath)
        C.log("[total] %d inputs, every public operation, in child processes (%.1fs)" % (len(cases), time.time() - t1))
    obs = L.read_ndjson(path)
    # an input whose worker exceeded the time limit is run once more, alone and with a five times longer limit: on a
    # loaded machine a worker can stall for reasons that have nothing to do with the input
    slow = [o["id"] for o in obs if o["outcome"] == "timeout"]
    if slow:
        rpath = path + ".retry%d" % os.getpid()
        L.write_ndjson(rpath + ".cases", [c for c in cases if c["id"] in set(slow)])
        try:
            C.run_wv(["total", "--threads", "2", "--timeout", "300"], stdin_path=rpath + ".cases", stdout_path=rpath, timeout=7000)
            again = {o["id"]: o for o in L.read_ndjson(rpath)}
        finally:
            for f in (rpath, rpath + ".cases"):
                if os.path.exists(f):
                    os.remove(f)
        obs = [again.get(o["id"], o) for o in obs]
        C.log("[total] %d inputs exceeded the time limit and were run again alone; %d still do" % (len(slow), sum(1 for o in again.values() if o["outcome"] == "timeout")))
    by_id = {o["id"]: o for o in obs}
    v = C.Verdict("C05")

    def describe(r, o):
        x = r.get("x", {})
        e = L.expr_of(o) if o["elen"] <= 64 else "<%s, %d characters>" % (o.get("desc"), o["elen"])
        return "%r: %s %s" % (e, r["what"], json.dumps(x))

    # the record that TLC attributes carries a site without its line number (line numbers move)
    if slow:
        path = path + ".merged%d" % os.getpid()
        L.write_ndjson(path, obs)
    try:
        out, stats = C.tlc("ObsCheck.tla", "ObsCheck_C05.cfg", env={"OBS": path, "PROP": "C05"}, timeout=3000, java_opts=["-Xmx12g"])
    finally:
        if slow and os.path.exists(path):
            os.remove(path)
    if not stats["ok"]:
        C.log(stats.get("tail", ""))
        raise C.ToolError("TLC did not complete on ObsCheck_C05")
    n = 0
    for r in C.tlc_records(out):
        if r["t"] != "DISAGREE":
            continue
        n += 1
        site = r.get("x", {}).get("site", "")
        import re as _re
        r["x"]["site_key"] = _re.sub(r":\d+ ", " ", site)
        o = by_id[r["id"]]
        r["x"]["desc"] = o.get("desc", o.get("fam"))
        r["x"]["outcome"] = o["outcome"]
        v.disagree(r, describe(r, o))
    outcomes = collections.Counter(o["outcome"] for o in obs)
    samples = [{"input": L.expr_of(o) if o["elen"] <= 64 else o.get("desc"), "outcome": o["outcome"], "error": o["ekind"]} for o in sample_cases(obs, 6, lambda o: o.get("fam") == "adv")]
    rc = v.finish()
    C.write_evidence("C05", tier, "exploration", {
        "evaluations": len(obs), "distinct_nontrivial": len({tuple(o["e"]) for o in obs if o["elen"] <= 64 and o["outcome"] != "parse"}) + sum(1 for o in obs if o["elen"] > 64),
        "rule": "inputs = every string up to %d characters over 21 symbols (all meta-characters, contextual ones, separator, letters), lexeme families %s, bounds around 2^16/2^32/2^63/2^64 in every bound position and nesting, nesting depths up to %d, seeded random UTF-8; each input in a child process; every public operation on the result; non-trivial = gets past the parser (or is a long adversarial input)" % (3 if tier == "quick" else 4, fams, max(depths_of(tier))),
        "samples": samples,
        "outcomes": dict(outcomes),
        "states": stats["distinct"], "transitions": stats["generated"],
        "operations": ["Glob::new", "depth/text/has_root/is_exhaustive", "captures/has_semantic_literals/is_empty/Display", "is_match/matched/get/to_owned/into_owned on 10 paths", "clone/into_owned", "partition/partition_or_empty/partition_or_tree", "any (text, compiled, nested)", "any of no patterns (queried, matched, nested in further combinators)", "not() programs / walk component programs", "FromStr/TryFrom", "escape + rebuild", "BuildError::locations + slicing the expression by each span"],
        "disagreements": n, "known_findings_hit": sorted(v.findings),
    }, time.time() - t0, len(v.violations), ["outcome classes are validated by TLC (ObsCheck!Total); totality itself is explored, not proved", "a worker that dies or exceeds 60 s is an abort/timeout of that input"])
    return rc


def law_pin(by_id, rel):
    """a law instance relates several observations: the input is the instance, the fingerprint all of them"""
    os_ = [by_id[rel["orig"]]] + [by_id[m] for m in rel["members"]]
    pins = [C.pin_of(o) for o in os_]
    return ("%s|%s|" % (rel["law"], rel["mode"]) + "||".join(p[0] for p in pins), "||".join(p[1] for p in pins))


def check_C07(tier):
    t0 = time.time()
    fams = [("core", 5), ("mini", 6), ("flags", 6)] if tier == "quick" else [("core", 6), ("mini", 7), ("case", 4), ("flags", 6)]
    base = L.family_cases(tier, fams)
    base += L.tree_cases(tier, len(base) + 1)
    fam_of = {tuple(c["e"]): c["fam"] for c in base}
    with_branch = [c for c in base if 123 in c["e"] or 60 in c["e"]]
    # of the flags family only expressions that have a flag as well as a branch (quick: a seeded half)
    rnd0 = random.Random(C.SEED + 7)
    with_branch = [c for c in with_branch if c["fam"] != "flags" or (40 in c["e"] and (tier == "thorough" or rnd0.random() < 0.5))]
    rels = L.gen_relations(with_branch, tier)
    rnd = random.Random(C.SEED)
    # the wrapping laws ({e} = e, <e:1> = e) are sampled in the quick tier
    keep = 0.25 if tier == "quick" else 1.0
    rels = [r for r in rels if r["law"] in ("alt", "rep") or rnd.random() < keep]
    # every text involved becomes a case; then the any-combinations with their members
    texts = set()
    for r in rels:
        fam = fam_of[tuple(r["orig"])]
        r["fam"] = fam
        for t in [r["orig"]] + r["members"]:
            texts.add((tuple(t), fam))
    cases = []
    ident = {}
    for t, fam in sorted(texts):
        ident[(t, fam)] = len(cases) + 1
        cases.append({"id": len(cases) + 1, "kind": "glob", "fam": fam, "e": list(t), "sigma": L.SIGMA[fam]})
    anys = L.any_cases(tier, len(cases) + 1)
    allc = cases + anys
    # member globs of the any-cases, observed over the any alphabet
    any_ident = {}
    for a in anys:
        for m in a["members"]:
            if tuple(m) not in any_ident:
                any_ident[tuple(m)] = len(allc) + 1
                allc.append({"id": len(allc) + 1, "kind": "glob", "fam": "anymember", "e": list(m), "sigma": L.ANY_SIGMA})
    # any of ONE pattern against that pattern, for family members with a branch (in a combinator every token of the
    # member is nested one level deeper: groups that capture at the top level do not, positions change): a seeded
    # sample of the base families and of the deep members of cls2 (escaped parentheses and brackets in branches)
    rnd1 = random.Random(C.SEED + 11)
    pool1 = [c for c in base if (123 in c["e"] or 60 in c["e"])]
    pool1 += [c for c in L.family_cases(tier, [("cls2", 3), ("cls2", 9, 800 if tier == "quick" else 8000)]) if 123 in c["e"] or 60 in c["e"]]
    rnd1.shuffle(pool1)
    singles = []
    for c in pool1[: (12000 if tier == "quick" else 120000)]:
        gid = len(allc) + 1
        allc.append({"id": gid, "kind": "glob", "fam": c["fam"], "e": c["e"], "sigma": L.SIGMA[c["fam"]]})
        aid = len(allc) + 1
        allc.append({"id": aid, "kind": "any", "mode": "text", "fam": "any1", "members": [c["e"]], "sigma": L.SIGMA[c["fam"]]})
        singles.append((aid, gid))
    obs_path = L.observe(allc, "dfa", "rel-" + tier)
    obs = L.read_ndjson(obs_path)
    by_id = {o["id"]: o for o in obs}

    def usable(i):
        o = by_id[i]
        return o["outcome"] == "ok" and o["dfa"]["ok"]
    recs = []
    skipped = 0
    for r in rels:
        o = ident[(tuple(r["orig"]), r["fam"])]
        ms = [ident[(tuple(m), r["fam"])] for m in r["members"]]
        if r["mode"] == "sub":
            ms = [m for m in ms if usable(m)]
        if not usable(o) or not ms or not all(usable(m) for m in ms):
            skipped += 1
            continue
        recs.append({"law": r["law"], "mode": r["mode"], "zt": r["zt"], "tr": r["tr"], "orig": o, "members": ms})
    for a in anys:
        ms = [any_ident[tuple(m)] for m in a["members"]]
        if usable(a["id"]) and all(usable(m) for m in ms):
            recs.append({"law": "any-" + a["mode"], "mode": "eq", "zt": False, "tr": False, "orig": a["id"], "members": ms})
    for aid, gid in singles:
        if usable(aid) and usable(gid):
            recs.append({"law": "any-one", "mode": "eq", "zt": False, "tr": False, "orig": aid, "members": [gid]})
    # relations are independent: they are checked in shards, each with the observations it refers to (renumbered,
    # UnionCheck indexes observations by position)
    d = os.path.dirname(obs_path)
    stats = {"distinct": 0, "generated": 0, "wall_s": 0.0}
    tlc_recs = []
    chunk = 50000
    for off in range(0, len(recs), chunk):
        part = recs[off:off + chunk]
        ids = sorted({i for r in part for i in [r["orig"]] + r["members"]})
        remap = {i: k + 1 for k, i in enumerate(ids)}
        sub_obs = os.path.join(d, "rel-%s-%d.obs.ndjson" % (tier, os.getpid()))
        rel_path = os.path.join(d, "rel-%s-%d.rel" % (tier, os.getpid()))
        L.write_ndjson(sub_obs, [dict(by_id[i], id=remap[i]) for i in ids])
        L.write_ndjson(rel_path, [dict(r, orig=remap[r["orig"]], members=[remap[m] for m in r["members"]]) for r in part])
        try:
            out, st = C._tlc_once("UnionCheck.tla", "UnionCheck.cfg", {"OBS": sub_obs, "REL": rel_path}, None, 3000, (), ["-Xmx12g"])
        finally:
            os.remove(sub_obs)
            os.remove(rel_path)
        if not st["ok"]:
            C.log(st.get("tail", ""))
            raise C.ToolError("TLC did not complete on UnionCheck")
        for k in ("distinct", "generated", "wall_s"):
            stats[k] += st[k]
        for r in C.tlc_records(out):
            if "rel" in r:
                r["rel"] += off
            tlc_recs.append(r)
    if len(recs) > chunk:
        C.log("[tlc] UnionCheck: %d relations in %d shards (%.0fs)" % (len(recs), (len(recs) + chunk - 1) // chunk, stats["wall_s"]))
    v = C.Verdict("C07")
    n = 0
    witness = {}
    for r in tlc_recs:
        if r["t"] != "DISAGREE":
            continue
        n += 1
        rel = recs[r["rel"] - 1]
        r["law"] = rel["law"]
        r["mode"] = rel["mode"]
        r["zt"] = rel["zt"]
        r["tr"] = rel["tr"]
        v.disagree(r, "%s law: %r vs %s on path %r: %s" % (rel["law"], L.expr_of(by_id[rel["orig"]]),
                                                       [L.expr_of(by_id[m]) for m in rel["members"]], C.text(r["path"]), r["what"]),
                   pin=law_pin(by_id, rel))
        witness.setdefault(r["rel"], r)
    # bind the tables to the real engine on the witnesses of disagreements and on seeded samples
    n_replayed = 0
    ws = []
    for k, r in witness.items():
        rel = recs[k - 1]
        for i in [rel["orig"]] + rel["members"]:
            ws.append({"id": i, "path": r["path"]})
    if ws:
        n_replayed += replay_paths(by_id, ws)
    n_replayed += replay_table_sample(by_id, [r["orig"] for r in recs], "C07", per_case=2, max_cases=2000)
    laws = collections.Counter(r["law"] for r in recs)
    samples = [{"law": r["law"], "mode": r["mode"], "original": L.expr_of(by_id[r["orig"]]), "members": [L.expr_of(by_id[m]) for m in r["members"]]}
               for r in random.Random(C.SEED).sample(recs, min(6, len(recs)))]
    rc = v.finish()
    C.write_evidence("C07", tier, "model_checking", {
        "states": stats["distinct"], "transitions": stats["generated"],
        "traces_validated_against_impl": n_replayed,
        "samples": samples,
        "evaluations": len(recs), "distinct_nontrivial": sum(1 for r in recs if r["law"] in ("alt", "rep") or r["law"].startswith("any")),
        "rule": "law instances derived by TLC (spec/GenRel.tla) on the token trees of every expression with a branch in the families %s, at every position and depth, kept when all derived trees print to text that reads back to the same tree and all expressions build; plus any-combinations (text, compiled, nested) against their members; non-trivial = alternation/repetition/any laws (wrapping laws are sampled in the quick tier)" % (fams,),
        "laws": dict(laws), "relations_skipped_not_all_buildable": skipped,
        "disagreements": n, "known_findings_hit": sorted(v.findings), "exhaustive": True,
    }, time.time() - t0, len(v.violations), TRUSTED_LANG)
    return rc


def check_C08(tier):
    t0 = time.time()
    cases = L.family_cases(tier)
    cases += L.tree_cases(tier, len(cases) + 1)
    obs_path = L.observe(cases, "dfa,part", "part-" + tier)
    obs = L.read_ndjson(obs_path)
    by_id = {o["id"]: o for o in obs}
    out, stats = C.tlc("PartCheck.tla", "PartCheck.cfg", env={"OBS": obs_path}, timeout=3000, java_opts=["-Xmx12g"])
    if not stats["ok"]:
        C.log(stats.get("tail", ""))
        raise C.ToolError("TLC did not complete on PartCheck")
    recs = C.tlc_records(out)
    v = C.Verdict("C08")
    entered = [r["id"] for r in recs if r["t"] == "IN"]
    witness = {}
    n = 0
    for r in recs:
        if r["t"] != "DISAGREE":
            continue
        n += 1
        o = by_id[r["id"]]
        v.disagree(r, "%r partitions into prefix %r and postfix %r; path %r: %s" % (
            L.expr_of(o), C.text(o["part"]["prefix"]), C.text(o["part"]["post"]) if o["part"]["has_post"] else None, C.text(r["path"]), r["what"]), pin=C.pin_of(o))
        witness.setdefault(r["id"], r)
    if not entered:
        raise C.ToolError("vacuous run: no case entered the product")
    n_replayed = replay_paths(by_id, [{"id": i, "path": r["path"]} for i, r in witness.items()]) if witness else 0
    n_replayed += replay_table_sample(by_id, entered, "C08")
    with_prefix = [i for i in entered if by_id[i]["part"]["prefix"]]
    samples = [{"expression": L.expr_of(by_id[i]), "prefix": C.text(by_id[i]["part"]["prefix"]), "postfix": C.text(by_id[i]["part"]["post"]) if by_id[i]["part"]["has_post"] else None}
               for i in random.Random(C.SEED).sample(with_prefix, min(6, len(with_prefix)))]
    rc = v.finish()
    C.write_evidence("C08", tier, "model_checking", {
        "states": stats["distinct"], "transitions": stats["generated"],
        "traces_validated_against_impl": n_replayed,
        "samples": samples,
        "evaluations": len(cases), "distinct_nontrivial": len(set(with_prefix)),
        "rule": "cases = lexeme families %s; every built glob is partitioned by the real code; non-trivial = the partition has a non-empty prefix" % (L.TIERS[tier],),
        "globs_in_product": len(set(entered)),
        "disagreements": n, "known_findings_hit": sorted(v.findings), "exhaustive": True,
    }, time.time() - t0, len(v.violations), TRUSTED_LANG + ["Path::components() of the prefix is evaluated by the harness (std is the oracle the statement names) and logged"])
    return rc


def check_C18(tier):
    t0 = time.time()
    n = 3 if tier == "quick" else 4
    texts = [t for t in L.gen_family("esc", n)]
    if tier == "quick":
        rnd = random.Random(C.SEED)
        more = L.gen_family("esc", 4)
        texts = texts + [t for t in more if len(t) == 4 and rnd.random() < 0.04]
    else:
        rnd = random.Random(C.SEED)
        syms = sorted({c for t in texts for c in t})
        texts = texts + [[rnd.choice(syms) for _ in range(rnd.randint(5, 9))] for _ in range(20000)]
    # the property excludes two adjacent separators (and backslashes, which the family does not contain)
    def ok(t):
        return not any(t[i] == 47 and t[i + 1] == 47 for i in range(len(t) - 1))
    texts = [t for t in texts if ok(t)]
    cases = []
    for t in texts:
        sigma = sorted(set(t) | {97, 47, 92})
        cases.append({"id": len(cases) + 1, "kind": "escape", "fam": "esc", "s": t, "sigma": sigma})
    obs_path = L.observe(cases, "dfa", "esc-" + tier)
    obs = L.read_ndjson(obs_path)
    by_id = {o["id"]: o for o in obs}
    out, stats = C.tlc("EscapeCheck.tla", "EscapeCheck.cfg", env={"OBS": obs_path}, timeout=3000, java_opts=["-Xmx12g"])
    if not stats["ok"]:
        C.log(stats.get("tail", ""))
        raise C.ToolError("TLC did not complete on EscapeCheck")
    recs = C.tlc_records(out)
    if any(r["t"] == "SPEC" for r in recs):
        raise C.ToolError("the specification's Escape does not read back on some case")
    v = C.Verdict("C18")
    entered = [r["id"] for r in recs if r["t"] == "IN"]
    nd = 0
    for r in recs:
        if r["t"] == "DISAGREE":
            nd += 1
            o = by_id[r["id"]]
            v.disagree(r, "escape(%r) = %r: %s (path %r)" % (C.text(o["s"]), C.text(o.get("escaped", [])), r["what"], C.text(r["path"])))
    if not entered:
        raise C.ToolError("vacuous run")
    samples = [{"text": C.text(o["s"]), "escaped": C.text(o["escaped"]), "glob_text": C.text(o["q"]["text"]) if o.get("q") else None}
               for o in sample_cases(obs, 6, lambda o: any(c in (42, 63, 91, 123) for c in o["s"]))]
    # the real engine on the text itself was recorded (is_match_s); bind tables on seeded paths
    usable = [o["id"] for o in obs if o["outcome"] == "ok" and o["dfa"]["ok"]]
    n_replayed = len(usable)
    # directed replays through the real entry point: the string itself and its near neighbours - a separator added at
    # either end, doubled or followed by a `.` component, a character more or less - judged by the statement itself
    # (accepted iff equal to the string), whatever the exported automaton says
    bad_cases = {r["id"] for r in recs if r["t"] == "DISAGREE"}
    rndd = random.Random(C.SEED + 18)
    pool = [i for i in usable if i not in bad_cases and by_id[i]["s"]]
    rndd.shuffle(pool)
    ws = []
    for i in pool[:4000 if tier == "quick" else 40000]:
        t = by_id[i]["s"]
        near = [t, t + [47], [47] + t, t + [97], t[:-1], [46, 47] + t]
        if 47 in t:
            k = t.index(47)
            near += [t[:k] + [47, 47] + t[k + 1:], t[:k] + [47, 46, 47] + t[k + 1:]]
        for path in near:
            exp = path == t
            ws.append({"id": i, "path": path, "mu": exp, "ma": exp, "im": exp})
    n_dir, dproblems = L.replay_witnesses(by_id, ws)
    for p in dproblems:
        if p["kind"] in ("engine_more", "engine_less", "matched_vs_is_match", "path_given_as_Path_or_OsStr_matches_differently", "panic"):
            o = by_id[p["id"]]
            v.disagree({"t": "REPLAY", "kind": p["kind"], "id": p["id"], "path": p.get("path", []), "directed": True},
                       "escape(%r) = %r: the real is_match %s the path %r" % (C.text(o["s"]), C.text(o.get("escaped", [])),
                                                                             "accepts" if p["kind"] == "engine_more" else p["kind"] if p["kind"] != "engine_less" else "rejects", C.text(p.get("path", []))))
    n_replayed += n_dir
    try:
        n_replayed += replay_table_sample(by_id, usable, "C18", per_case=2, max_cases=1500)
    except C.ToolError:
        if not v.violations:
            raise        # (otherwise the directed replays have already shown that the entry point deviates from its program)
    rc = v.finish()
    C.write_evidence("C18", tier, "model_checking", {
        "states": stats["distinct"], "transitions": stats["generated"],
        "traces_validated_against_impl": n_replayed,
        "samples": samples,
        "evaluations": len(cases), "distinct_nontrivial": sum(1 for o in obs if o.get("escaped") and o["escaped"] != o["s"]),
        "rule": "texts = every string up to %d characters over the 13 meta-characters, - ! / a, a 2-byte letter and seven non-ASCII characters whose code point truncated to a byte is a meta-character / separator / backslash, without two adjacent separators%s; non-trivial = escaping changes the text" % (n, " plus a seeded 4%% sample of length 4" if tier == "quick" else " plus 20000 seeded strings of length 5-9"),
        "disagreements": nd, "known_findings_hit": sorted(v.findings), "exhaustive": True,
    }, time.time() - t0, len(v.violations), TRUSTED_LANG[:1] + ["the alphabet of candidate paths of a case is the characters of its text plus a letter, a separator and a backslash"])
    return rc


def check_C04(tier):
    t0 = time.time()
    cases, obs_path, recs, stats = lang_product(tier)
    obs = L.read_ndjson(obs_path)
    by_id = {o["id"]: o for o in obs}
    # accepted witnesses, at most `cap` per expression (shortest first), replayed through the real matched()
    cap = 6 if tier == "quick" else 20
    per = collections.defaultdict(list)
    for w in recs:
        if w["t"] == "W" and w["im"]:
            per[w["id"]].append(w["path"])
    lines = []
    for i, paths in per.items():
        paths.sort(key=lambda p: (len(p), p))
        # short and long witnesses both: the first half shortest, the rest longest
        pick = paths[: cap // 2] + paths[len(paths) - (cap - cap // 2):] if len(paths) > cap else paths
        pick = [list(x) for x in sorted({tuple(p) for p in pick})]
        lines.append(json.dumps({"id": i, "e": by_id[i]["e"], "paths": pick}, separators=(",", ":")))
    out = C.run_wv(["replay"], input_text="\n".join(lines) + "\n")
    crecs = []
    v = C.Verdict("C04")
    for line in out.splitlines():
        r = json.loads(line)
        o = by_id[r["id"]]
        for x in r["rs"]:
            if x["panic"]:
                v.disagree({"t": "DISAGREE", "what": "panic", "id": r["id"], "site": x["panic"]}, "%r on %r panics: %s" % (L.expr_of(o), C.text(x["p"]), x["panic"]))
                continue
            if x["m"] != x["has"]:
                v.disagree({"t": "DISAGREE", "what": "matched_vs_is_match", "id": r["id"]}, "%r on %r: matched().is_some() = %s but is_match = %s" % (L.expr_of(o), C.text(x["p"]), x["has"], x["m"]))
            if x["has"]:
                crecs.append({"id": r["id"], "e": o["e"], "path": x["p"], "caps": x["caps"], "owned_eq": x["owned_eq"]})
    d = os.path.dirname(obs_path)
    cap_path = os.path.join(d, "captures-%s.ndjson" % tier)
    L.write_ndjson(cap_path, crecs)
    tout, tstats = C.tlc("CaptureCheck.tla", "CaptureCheck.cfg", env={"OBS": cap_path}, timeout=3000, java_opts=["-Xmx12g"])
    if not tstats["ok"]:
        C.log(tstats.get("tail", ""))
        raise C.ToolError("TLC did not complete on CaptureCheck")
    nd = 0
    caps_of = {(c["id"], tuple(c["path"])): c["caps"] for c in crecs}
    for r in C.tlc_records(tout):
        if r["t"] != "DISAGREE":
            continue
        nd += 1
        o = by_id[r["id"]]
        # (a record index is local to the shard TLC read: the capture vector is looked up by expression and path)
        caps = caps_of[(r["id"], tuple(r["path"]))]
        v.disagree(r, "%r on path %r captures %s: %s" % (L.expr_of(o), C.text(r["path"]), [C.text(c["s"]) if c["some"] else None for c in caps], r["what"]),
                   pin=C.pin_of(dict(o, _caps=caps), extra=json.dumps(r["path"])))
    with_caps = [c for c in crecs if len(c["caps"]) > 2]
    samples = [{"expression": L.expr_of(by_id[c["id"]]), "path": C.text(c["path"]), "captures": [C.text(x["s"]) if x["some"] else None for x in c["caps"]]}
               for c in random.Random(C.SEED).sample(with_caps, min(6, len(with_caps)))]
    rc = v.finish()
    C.write_evidence("C04", tier, "model_checking", {
        "states": tstats["distinct"], "transitions": tstats["generated"],
        "traces_validated_against_impl": len(crecs),
        "samples": samples,
        "evaluations": len(crecs), "distinct_nontrivial": len({(c["id"], tuple(c["path"])) for c in with_caps}),
        "rule": "records = (expression, accepted path) with the capture vector the real matched() returned for indices 0..n+1, borrowed and owned; paths = access paths of the product states of C01 that the code accepts (at most %d per expression, shortest and longest); non-trivial = the expression has at least one capturing token" % cap,
        "expressions": len(per), "disagreements": nd, "known_findings_hit": sorted(v.findings),
        "explanation": "TLC validates every recorded capture vector against GlobCapture!CaptureVerdict (existence of a segmentation of the path by the top-level tokens that explains the captures); this is validation on witness paths, not on all paths - captures are not a regular-language question",
    }, time.time() - t0, len(v.violations), ["TLC", "paths are witnesses of product states over the family alphabets, tens per expression, not all paths",
                                             "greediness is not checked (C04 does not state it)"])
    return rc


IDENTITY_STEPS = ["clone", "into_owned", "display_new", "from_str", "try_from"]
ANY_STEPS = ["any_text", "any_compiled", "any_nested"]


def lifecycle_traces(picked, rnd, per_fam, caps=None):
    """runs the routes of conversions in the real code; one trace record per (expression, route)"""
    import itertools
    lines = []
    for c in picked:
        sigma = c["sigma"]
        paths = [list(p) for k in range(0, 4) for p in itertools.product(sigma, repeat=k)]
        if len(paths) > 24:
            paths = paths[:8] + rnd.sample(paths[8:], 16)
        # three routes per expression, one per kind of combinator at the end: every conversion once in a
        # seeded order, and two seeded compositions of 2-4 conversions
        steps = IDENTITY_STEPS[:]
        rnd.shuffle(steps)
        routes = [steps + ["any_text"],
                  [rnd.choice(IDENTITY_STEPS) for _ in range(rnd.randint(2, 4))] + ["any_compiled"],
                  [rnd.choice(IDENTITY_STEPS) for _ in range(rnd.randint(2, 4))] + ["any_nested"]]
        # the combinator itself passed on: wrapped again, behind an empty combinator, wrapped again
        routes[1 + len(lines) % 2][-1] += "_keep"
        routes[1 + len(lines) % 2] += ["any_again", "any_mix_empty", "any_again", "any_again"]
        lines.append(json.dumps({"id": c["id"], "e": c["e"], "sigma": sigma, "paths": paths, "routes": routes}, separators=(",", ":")))
    out = C.run_wv(["lifecycle"], input_text="\n".join(lines) + "\n", timeout=3000)
    routes = collections.OrderedDict()
    for line in out.splitlines():
        ev = json.loads(line)
        routes.setdefault((ev["id"], ev["route"]), []).append({"ev": ev["ev"], "abs": ev["abs"]})
    # keep the number of traces bounded: per_fam built expressions per family
    by_case = collections.OrderedDict()
    for (i, rt), evs in routes.items():
        by_case.setdefault(i, []).append((rt, evs))
    fam_of = {c["id"]: c["fam"] for c in picked}
    count = collections.Counter()
    recs = []
    for i, rts in by_case.items():
        if count[fam_of[i]] >= (caps or {}).get(fam_of[i], per_fam):
            continue
        count[fam_of[i]] += 1
        for rt, evs in rts:
            recs.append({"id": i, "route": rt, "events": evs})
    return recs


def check_C19(tier):
    t0 = time.time()
    import itertools
    rnd = random.Random(C.SEED)
    cases0 = L.family_cases(tier)
    obs_path = L.observe(cases0, "dfa", "lang-" + tier) if False else None
    # only expressions that are likely to build are worth a route; the harness skips the others
    per_fam = 300 if tier == "quick" else 3000
    picked = []
    for fam, _n in L.TIERS[tier]:
        pool = [c for c in cases0 if c["fam"] == fam]
        rnd.shuffle(pool)
        picked += pool[:per_fam * 4]
    # flag placement: every member of the flags family up to four (thorough: five) lexemes - literals with and without
    # case under different flags next to each other, which re-owning a token tree must keep apart
    flags = L.family_cases(tier, [("flags", 4 if tier == "quick" else 5)])
    for c in flags:
        c["id"] = len(cases0) + c["id"]
    picked += flags
    recs = lifecycle_traces(picked, rnd, per_fam, caps={"flags": len(flags)})
    d = C.cache_dir("obs", "%s-%s" % (C.repo_hash(), C.harness_hash()))
    tpath = os.path.join(d, "lifecycle-%s.ndjson" % tier)
    L.write_ndjson(tpath, recs)
    tout, stats = C.tlc("Lifecycle.tla", "Lifecycle.cfg", env={"TRACE": tpath}, timeout=3000, java_opts=["-Xmx12g"])
    if not stats["ok"]:
        C.log(stats.get("tail", ""))
        raise C.ToolError("TLC did not complete on Lifecycle")
    by_id = {c["id"]: c for c in picked}
    v = C.Verdict("C19")
    done = 0
    nd = 0
    trecs = C.tlc_records(tout)
    # signatures of the disagreeing expressions (the life-cycle specification does not read expressions)
    bad_ids = sorted({r["id"] for r in trecs if r["t"] == "DISAGREE"})
    sigs = {}
    if bad_ids:
        spath = os.path.join(d, "lifecycle-sig-%d.ndjson" % os.getpid())
        L.write_ndjson(spath, [{"id": i, "e": by_id[i]["e"]} for i in bad_ids])
        try:
            sout, sst = C.tlc("SigOf.tla", "SigOf.cfg", env={"OBS": spath}, timeout=1200)
        finally:
            os.remove(spath)
        if not sst["ok"]:
            raise C.ToolError("TLC did not complete on SigOf")
        sigs = {r["id"]: r for r in C.tlc_records(sout) if r.get("t") == "SIG"}
    for r in trecs:
        if r["t"] == "DONE":
            done += 1
        elif r["t"] == "DISAGREE":
            nd += 1
            r["sig"] = {k: val for k, val in sigs.get(r["id"], {}).items() if k not in ("t", "id")}
            r["sig"]["through_combinator"] = r["ev"].startswith("any_")
            v.disagree(r, "%r: after %s (step %d of route %d): %s" % (C.text(by_id[r["id"]]["e"]), r["ev"], r["step"], r["route"], r["what"]))
    if done != len(recs):
        raise C.ToolError("trace validation consumed %d of %d routes" % (done, len(recs)))
    samples = [{"expression": C.text(by_id[r["id"]]["e"]), "route": [e["ev"] for e in r["events"]]} for r in rnd.sample(recs, min(6, len(recs)))]
    rc = v.finish()
    C.write_evidence("C19", tier, "model_checking", {
        "states": stats["distinct"], "transitions": stats["generated"],
        "traces_validated_against_impl": len(recs),
        "samples": samples,
        "evaluations": sum(len(r["events"]) for r in recs), "distinct_nontrivial": len({r["id"] for r in recs}),
        "rule": "traces = for up to %d built expressions per family %s: three routes: all five conversions (Clone, into_owned, Display+new, FromStr, TryFrom) in a seeded order then any of text, and two seeded compositions of 2-4 conversions then any of the compiled glob / a nested combinator; after each step the abstract value (minimised DFA over the alphabet = the language on all paths, all queries, capturing tokens, display, capture vectors borrowed/owned on 24 paths) is logged; non-trivial = distinct expressions" % (per_fam, [f for f, _ in L.TIERS[tier]]),
        "disagreements": nd, "known_findings_hit": sorted(v.findings),
        "explanation": "trace validation: every logged value must equal the effect of the named Lifecycle action on the previous value; all routes were consumed to their end",
    }, time.time() - t0, len(v.violations), ["TLC", "equal minimised tables over the alphabet = equal languages (regex-automata DFA of the hooked pattern)", "captures are compared on 24 concrete paths per expression"])
    return rc


def depths_of(tier):
    return [10, 50, 100, 130, 300, 1000, 3000] + ([20000] if tier == "thorough" else [])


CHECKS = {"C01": check_C01, "C04": check_C04, "C05": check_C05, "C06": check_C06, "C07": check_C07, "C08": check_C08, "C17": check_C17, "C18": check_C18, "C19": check_C19}
for _p in QUERY:
    CHECKS[_p] = (lambda p: (lambda tier: query_check(p, tier)))(_p)


# ============================================================================ walker

from . import walk as W  # noqa: E402

WALK_TRUST = ["TLC", "walkdir behaves as modelled in Walk.tla!Yield (validated on every recorded trace)",
              "hook events are emitted in program order on one thread; grouping them into actions is deterministic"]


def sample_model_scenarios(tier, rnd, n_total, consts, tag, want=lambda s: True):
    scs = [s for s in W.model_scenarios(consts, tag) if want(s)]
    rnd.shuffle(scs)
    return scs[:n_total]


def emitted_set(y):
    return sorted(tuple(x["pos"]) for x in y if x["emitted"] and x["err"] == "none")


def filters_check(prop, tier):
    """C13 and C16: stacks of filters over path walks and glob walks"""
    t0 = time.time()
    rnd = random.Random(C.SEED)
    v = C.Verdict(prop)
    # 1. the model, exhaustively
    n = 3 if tier == "quick" else 4
    mc = []
    mc.append(("filters", W.model_check("filters", W.mc_consts(n, 2), ["NothingBeneathDiscarded", "CancelOnce", "CancelPopsOwnFrame", "Final", "SameAsEntryFilter"], ["Monotone"])))
    mc.append(("glob+filter", W.model_check("glob", W.mc_consts(n, 1, glob=True), ["NothingBeneathDiscarded", "CancelOnce", "CancelPopsOwnFrame", "Final", "MatchingOnly"], constraint="GlobConstraint")))
    if tier == "thorough":
        mc.append(("three layers", W.model_check("filters3", W.mc_consts(3, 3), ["NothingBeneathDiscarded", "CancelOnce", "CancelPopsOwnFrame", "Final"], ["Monotone"])))
        mc.append(("links+faults", W.model_check("links", W.mc_consts(4, 1, links=True, faults=True, depths=True), ["NothingBeneathDiscarded", "CancelOnce", "CancelPopsOwnFrame", "Final"])))
    for name, st in mc:
        if not st["ok"]:
            raise C.ToolError("the model itself violates an invariant (%s): %s" % (name, st.get("violation", st.get("tail", ""))[:1500]))
    # 2. scenarios enumerated by TLC, executed by the real walker, traces validated
    count = 200 if tier == "quick" else 2500
    interesting = lambda s: any(x != "keep" for lv in s["layers"] for x in lv)
    # a third of them: a non-directory is discarded as a tree while another directory (with a child) exists -
    # the cancellation must be a no-op there, whatever the order in which the siblings are read
    def file_as_tree(s):
        n = s["n"]
        par = W.parent_list(s)
        dirs_with_child = {par[i] for i in range(1, n)} - {1}
        return bool(dirs_with_child) and any(s["kind"][i] != "dir" and lv[i] == "tree" for lv in s["layers"] for i in range(n))
    scs = sample_model_scenarios(tier, rnd, count - count // 3, W.mc_consts(4, 2), "n4l2", interesting)
    fat = sample_model_scenarios(tier, rnd, count // 3, W.mc_consts(4, 2), "n4l2", file_as_tree)
    scs += fat
    scenarios = []
    pairs = []
    for sc in scs:
        h = W.from_model(sc, len(scenarios) + 1)
        scenarios.append(h)
        if sc in fat:
            # the same scenario with other names: the directory is read in another order
            for names in (["root", "n5", "n4", "n3", "n2"], ["root", "b", "a", "d", "c"]):
                h3 = W.from_model(sc, len(scenarios) + 1, names=names)
                h3["origin"] = "model, other names"
                scenarios.append(h3)
        if prop == "C16":
            # the same scenario with the two layers in the opposite order
            h2 = W.from_model(dict(sc, layers=list(reversed(sc["layers"]))), len(scenarios) + 1)
            h2["origin"] = "model, layers reversed"
            scenarios.append(h2)
            pairs.append((h["sid"], h2["sid"]))
    # symbolic links (read as files and followed) that a layer discards as a tree or as a file: cancelling on a link
    # that is read as a file must not skip its siblings
    linked = lambda s: all(s["readable"]) and any(k == "link" and lv[i] != "keep" for lv in s["layers"] for i, k in enumerate(s["kind"]))
    for sc in sample_model_scenarios(tier, rnd, 80 if tier == "quick" else 800, W.mc_consts(4, 1, links=True, faults=True), "n4l1lf", linked):
        h = W.from_model(sc, len(scenarios) + 1)
        h["origin"] = "model with links"
        scenarios.append(h)
    # depth behaviours under the layers: a directory with a child is discarded as a tree while the walk is bounded
    # (every combination of minimum 0..2 and maximum 0..2 / none of the model) - what lies beneath it stays unread
    # whatever the bounds say about its depth
    def bounded_discard(s):
        par = W.parent_list(s)
        with_child = {par[i] for i in range(1, s["n"])}
        return (s["min"] > 0 or s["max"] < 100) and any(lv[i] == "tree" and s["kind"][i] == "dir" and (i + 1) in with_child for lv in s["layers"] for i in range(s["n"]))
    for sc in sample_model_scenarios(tier, rnd, 120 if tier == "quick" else 1200, W.mc_consts(4, 1, depths=True), "n4l1d", bounded_discard):
        h = W.from_model(sc, len(scenarios) + 1)
        h["origin"] = "model with depth bounds"
        scenarios.append(h)
    scenarios += library_scenarios(prop, tier, len(scenarios) + 1, rnd)
    # the product of the dimensions: tree x path walk / glob x link behaviour x depth behaviour x stacks of filters and negations
    scenarios += W.product_scenarios(random.Random(C.SEED + (13 if prop == "C13" else 16)), 150 if tier == "quick" else 1500, len(scenarios) + 1)
    pivots = W.prepare_glob_scenarios(scenarios)
    results, yielded, tstats, ntraces = W.run_and_validate(prop, scenarios, prop.lower(), v, pivots=pivots)
    for a, b in pairs:
        if a in yielded and b in yielded and emitted_set(yielded[a]) != emitted_set(yielded[b]):
            v.disagree({"t": "DISAGREE", "what": "order_of_layers_changes_result", "sid": a},
                       "scenario %d: reversing the two layers changes the yielded set: %s vs %s" % (a, emitted_set(yielded[a]), emitted_set(yielded[b])))
    by_sid = {h["sid"]: h for h in scenarios}
    extra = library_oracles(prop, scenarios, results, yielded, v)
    samples = []
    for h in rnd.sample(scenarios, min(4, len(scenarios))):
        y = yielded.get(h["sid"], [])
        samples.append({"scenario": h.get("desc", h["origin"]), "tree": [(nd["id"], nd["parent"], C.text(nd["name"]), nd["kind"]) for nd in h["nodes"]],
                        "layers": [l.get("verdicts", [C.text(p) for p in l.get("patterns", [])]) for l in h["layers"]],
                        "yielded": [x["text"] for x in y if x["emitted"]]})
    rc = v.finish()
    C.write_evidence(prop, tier, "model_checking", {
        "states": sum(st["distinct"] for _, st in mc) + tstats["distinct"], "transitions": sum(st["generated"] for _, st in mc) + tstats["generated"],
        "traces_validated_against_impl": ntraces,
        "samples": samples,
        "evaluations": len(scenarios), "distinct_nontrivial": sum(1 for h in scenarios if any(l.get("verdicts") or l.get("patterns") for l in h["layers"]) or h.get("glob") is not None),
        "rule": "model: every tree up to %d nodes x every verdict table of the layers x every sibling order (configs %s); real: %d scenarios sampled (seeded) from the TLC-enumerated initial states of the 4-node/2-layer model with at least one discard%s, scenarios of the 4-node model with symbolic links in which a layer discards a link, plus a library of glob / negation / nested-discard scenarios; each executed on a real file system with pass-through probes in every unused slot of a 7-layer stack, its hook trace validated against Walk.tla; non-trivial = some layer discards something" % (
            n, [name for name, _ in mc], len(scs), " and their layer-reversed twins" if prop == "C16" else ""),
        "model_runs": {name: {"states": st["distinct"], "transitions": st["generated"]} for name, st in mc},
        "trace_validation": {"states": tstats["distinct"], "traces": ntraces},
        "oracle_checks": extra,
        "known_findings_hit": sorted(v.findings), "exhaustive": True,
    }, time.time() - t0, len(v.violations), WALK_TRUST)
    return rc


def library_scenarios(prop, tier, first_sid, rnd):
    """C13: path walks with single negations, among them ones whose exhaustive and non-exhaustive alternatives both
    match a directory (it must be discarded as a tree: nothing beneath it reaches the layers after the not)"""
    out = []
    if prop == "C16":
        # glob walks that prune a directory which a later layer discards as a tree as well (and the reverse order
        # of two layers behind the glob): the second tree verdict must not cancel again
        nodes, index = W.tree(W.TREES["plain"])
        stacks = [[{"kind": "filter", "verdicts": {"root/b": "tree"}}],
                  [{"kind": "not", "patterns": [C.cps("b/**")], "mode": "text"}],
                  [{"kind": "filter", "verdicts": {"root/b": "tree", "root/a/b": "file"}}, {"kind": "not", "patterns": [C.cps("b/**")], "mode": "text"}],
                  [{"kind": "not", "patterns": [C.cps("b/**")], "mode": "text"}, {"kind": "filter", "verdicts": {"root/b": "tree", "root/a/b": "file"}}]]
        for g in ("a*/**", "?/b/*", "{a,.h}/**"):
            for st in stacks:
                for rooted in (False, True):
                    out.append({"sid": first_sid + len(out), "nodes": nodes, "follow": False, "min": -1, "max": -1, "rooted": rooted, "glob": C.cps(g),
                                "walk_from": index["root"], "base": "abs", "tree": "plain", "origin": "library", "layers": st,
                                "desc": "%sglob %r over tree plain with %d layers" % ("rooted " if rooted else "", g, len(st))})
        # a negation with an exhaustive and a non-exhaustive alternative that both match a directory, alone and next to an
        # entry filter in either order: the directory is discarded as a tree (nothing beneath it reaches the other layer)
        for neg in ("{**/b/**,**/b}", "{a/**,a}", "{**/c,**/c/**,**/g}"):
            for tname in ("plain", "deep"):
                nodes2, index2 = W.tree(W.TREES[tname])
                f = {"kind": "filter", "verdicts": {"root/f": "file"}}
                n_ = {"kind": "not", "patterns": [C.cps(neg)], "mode": "text"}
                for st in ([n_], [f, n_], [n_, f]):
                    out.append({"sid": first_sid + len(out), "nodes": nodes2, "follow": False, "min": -1, "max": -1, "rooted": False,
                                "walk_from": index2["root"], "base": "abs", "tree": tname, "origin": "library", "_neg": (neg,), "_base_text": "root",
                                "_not_slot": st.index(n_), "layers": st,
                                "desc": "path walk over tree %s with %s" % (tname, " then ".join("not(%r)" % neg if l is n_ else "filter_entry" for l in st))})
        return out
    if prop != "C13":
        return []
    for tname in ("plain", "deep"):
        nodes, index = W.tree(W.TREES[tname])
        for neg in NEGATIONS:
            if len(neg) != 1 or not neg[0]:
                continue
            out.append({"sid": first_sid + len(out), "nodes": nodes, "follow": False, "min": -1, "max": -1, "rooted": False,
                        "walk_from": index["root"], "base": "abs", "tree": tname, "origin": "library", "_neg": tuple(neg), "_base_text": "root",
                        "layers": [{"kind": "not", "patterns": [C.cps(neg[0])], "mode": "text" if len(out) % 2 else "compiled"}],
                        "desc": "path walk over tree %s .not(%r)" % (tname, neg[0])})
    # glob walks (unrooted and rooted) in which directories fail a component program before the first tree wildcard:
    # they are discarded as trees, so nothing beneath them reaches the entry filter that follows
    nodes, index = W.tree(W.TREES["plain"])
    for g in ("a*/**", "*/b/*", "a/b/*", "?/*.txt", "{a,b}/a/**"):
        for rooted in (False, True):
            out.append({"sid": first_sid + len(out), "nodes": nodes, "follow": False, "min": -1, "max": -1, "rooted": rooted, "glob": C.cps(g),
                        "walk_from": index["root"], "base": "abs", "tree": "plain", "origin": "library",
                        "layers": [{"kind": "filter", "verdicts": {"root/a/x.txt": "file"}}],
                        "desc": "%sglob %r over tree plain .filter_entry(..)" % ("rooted " if rooted else "", g)})
    return out


def exhaustive_tables(scenarios, tag):
    """the exhaustive program that not() compiles from each single negation of the scenarios (hook), as an automaton
    over an alphabet that holds every character of the trees; returns accepts(pattern, relative path) -> bool | None"""
    singles = sorted({h["_neg"][0] for h in scenarios if h.get("_neg") and len(h["_neg"]) == 1 and not h.get("_two") and h["_neg"][0]})
    alphabet = sorted({c for h in scenarios for nd in h["nodes"] for c in nd["name"]} | {47, 10})
    ncases = [{"id": i + 1, "kind": "glob", "fam": "walkneg", "e": C.cps(p),
               "sigma": sorted(set(alphabet) | (set(C.cps(p)) - set(C.cps("{}<>:,*?[]()!-\\$0123456789"))))} for i, p in enumerate(singles)]
    exh_of = {}
    if ncases:
        for o in L.read_ndjson(L.observe(ncases, "dfa,neg", tag)):
            if o["outcome"] == "ok" and "neg" in o:
                exh_of[C.text(o["e"])] = o

    def accepts(p, rel):
        o = exh_of.get(p)
        if o is None or any(ord(c) not in o["sigma"] for c in rel):
            return None
        t = o["neg"]["exh"]
        if not t["ok"]:
            return False if t.get("why") == "absent" else None
        q = 0
        for c in rel:
            q = t["delta"][q][o["sigma"].index(ord(c))] - 1
        return t["acc"][q]
    return accepts


def pruning_oracle(prop, scenarios, results, yielded, v, tag):
    """glob walks: the glob layer discards an entry as a tree exactly when one of the walk's component programs (hook)
    rejects the corresponding component of the entry's path; the programs are exported as automata over an alphabet
    that holds every character of the paths involved.  Returns the number of entries compared."""
    todo = []
    for h in scenarios:
        if h.get("glob") is None or h.get("skip_trace") or h["sid"] not in yielded or not h.get("_plain_prefix", True):
            continue
        r = results[h["sid"]]
        text = C.text(r["glob_text"]) if h.get("rooted") else C.text(h["glob"])
        top = C.text(r["top"])
        chars = set(C.cps(text)) - set(C.cps("{}<>:,*?[]()!\\$")) | {47, 10}
        cands = {}
        for y in yielded[h["sid"]]:
            if y["err"] != "none" or y["gout"] is None or y["text"] is None:
                continue
            cand = (top + "/" + y["text"]) if h.get("rooted") else W.rel_to(y["text"], h["_base_text"])
            cands[id(y)] = (y, [c for c in cand.split("/") if c])
            chars |= set(C.cps(cand))
        todo.append((h, text, sorted(chars), cands))
    if not todo:
        return 0
    cases = [{"id": i + 1, "kind": "glob", "fam": "walkcomp", "e": C.cps(text), "sigma": sigma} for i, (_, text, sigma, _) in enumerate(todo)]
    obs = {o["id"]: o for o in L.read_ndjson(L.observe(cases, "dfa,walk", tag))}
    n = 0
    for i, (h, text, sigma, cands) in enumerate(todo):
        o = obs.get(i + 1)
        if o is None or o["outcome"] != "ok" or "walk" not in o or any(not t["ok"] for t in o["walk"]):
            continue
        for y, comps in cands.values():
            rejects = []
            for t, comp in zip(o["walk"], comps):
                q = 0
                for ch in comp:
                    q = t["delta"][q][sigma.index(ord(ch))] - 1
                rejects.append(not t["acc"][q])
            n += 1
            # an entry's OWN component is the glob layer's business when the entry arrives; an ancestor's was when the
            # ancestor arrived - unless the depth behaviour hid the ancestor from the layer (minimum depth), in which case
            # nothing is demanded for the descendant (it cannot match; whether it is dropped as a file or as a tree is open)
            own = bool(rejects) and len(rejects) == len(comps) and rejects[-1] and not any(rejects[:-1])
            anyrej = any(rejects)
            if (own and y["gout"] != "T") or (y["gout"] == "T" and not anyrej):
                v.disagree({"t": "DISAGREE", "what": "pruning_differs_from_component_programs", "sid": h["sid"], "scenario": h},
                           "%s: entry %r: a component program %s its component but the glob layer answers %s" % (
                               h["desc"], y["text"], "rejects" if anyrej else "does not reject", {"T": "tree", "N": "file", "F": "keep"}[y["gout"]]))
    return n


def library_oracles(prop, scenarios, results, yielded, v):
    """C13: an entry that the exhaustive program of a negation matches is discarded as a tree, and only such an entry"""
    extra = {}
    if prop in ("C13", "C16"):
        extra["glob_layer_verdicts_compared_with_component_programs"] = pruning_oracle(prop, scenarios, results, yielded, v, "walkcomp-" + prop.lower())
    lib = [h for h in scenarios if h.get("origin") == "library" and h.get("_neg")]
    if not lib:
        return extra
    accepts = exhaustive_tables(lib, "negwalk13")
    n = 0
    for h in lib:
        slot = results[h["sid"]]["slot_of"][h.get("_not_slot", 0)]
        for y in yielded.get(h["sid"], []):
            if y["err"] != "none" or not y["verdicts"]:
                continue
            rel = W.rel_to(y["text"], h["_base_text"])
            verdict = y["verdicts"][slot - 1]
            ex = accepts(h["_neg"][0], rel)
            if y["ins"][slot - 1] != "F" and verdict == "keep":
                continue   # (an entry that an earlier layer discarded and the negation does not match)
            n += 1
            if ex is True and verdict != "tree":
                v.disagree({"t": "DISAGREE", "what": "exhaustive_match_not_discarded_as_tree", "sid": h["sid"], "scenario": h},
                           "%s: entry %r matches an exhaustive alternative of the negation but not() answers %s: what lies beneath it reaches the layers downstream" % (h["desc"], y["text"], verdict))
            if ex is False and verdict == "tree":
                v.disagree({"t": "DISAGREE", "what": "tree_discard_without_exhaustive_match", "sid": h["sid"], "scenario": h},
                           "%s: entry %r is discarded as a tree although no exhaustive alternative matches it" % (h["desc"], y["text"]))
    return dict(extra, not_verdicts_compared_with_the_exhaustive_program=n)


CHECKS["C13"] = lambda tier: filters_check("C13", tier)
CHECKS["C16"] = lambda tier: filters_check("C16", tier)


def expected_glob_yield(h, r, is_match):
    """C02 oracle: positions beneath the base whose relative path the glob matches (real is_match)"""
    paths = W.node_paths(dict(h, walk_from=h["walk_from"]))
    base = h["_base_text"]
    g = C.text(r["glob_text"]) if h.get("rooted") else C.text(h["glob"])
    top = C.text(r["top"])
    exp = set()
    if not h["_plain_prefix"]:
        # a prefix with . or .. is a native path: the walk starts at the resolved anchor and the rest of the
        # glob (the partitioned postfix) is matched against paths relative to it
        anchor = h["_anchor_text"]
        allp = W.node_paths(dict(h, walk_from=1))
        for t in allp:
            if t != anchor and not t.startswith(anchor + "/"):
                continue
            rel = W.rel_to(t, anchor)
            if h["_post"] is None:
                if rel == "":
                    exp.add(t)
            elif rel != "" and is_match[((h["_post"],), rel)]:
                exp.add(t)
        return exp
    for t in paths:
        rel = W.rel_to(t, base)
        cand = (top + "/" + t) if h.get("rooted") else rel
        if rel == "":
            continue  # the base itself: one-sided clause, checked separately
        if is_match[((g,), cand)]:
            exp.add(t)
    return exp


def anchor_kind(h):
    paths = W.node_paths(dict(h, walk_from=1))
    pos = paths.get(h["_anchor_text"])
    return W.node_by_id(h)[pos[-1]]["kind"] if pos else None


def check_C02(tier):
    t0 = time.time()
    rnd = random.Random(C.SEED)
    v = C.Verdict("C02")
    n = 3 if tier == "quick" else 4
    mc = [("glob layer, ComponentSound tables", W.model_check("glob0", W.mc_consts(n if tier == "quick" else 5, 0, glob=True), ["NothingBeneathDiscarded", "CancelOnce", "CancelPopsOwnFrame", "Final", "MatchingOnly"], constraint="GlobConstraint"))]
    for name, st in mc:
        if not st["ok"]:
            raise C.ToolError("the model itself violates an invariant (%s): %s" % (name, st.get("violation", st.get("tail", ""))[:1500]))
    # ComponentSound for real globs: product of the glob's DFA with its component DFAs (all paths)
    cs_stats, cs_n = component_sound("C02", tier, v)
    scenarios = W.glob_scenarios(tier, 1, rnd)
    # family walks: members of the expression families over a, b walked over a three-level tree of a, b
    fam = L.family_cases(tier, [("core", 5), ("mini", 6)] if tier == "quick" else [("core", 6), ("mini", 7)])
    fam += L.seq_cases(tier, len(fam) + 1) + L.alg_cases(tier, len(fam) + 1)
    texts = {C.text(c["e"]) for c in fam if set(c["e"]) <= set(C.cps("ab/?*{},<>:012[]"))}
    family = W.family_walk_scenarios(tier, len(scenarios) + 1, rnd, texts)
    scenarios += family
    pivots = W.prepare_glob_scenarios(scenarios)
    results, yielded, tstats, ntraces = W.run_and_validate("C02", scenarios, "c02", v, pivots=pivots)
    # oracle: real is_match on every path beneath the base
    pairs = []
    for h in scenarios:
        r = results[h["sid"]]
        g = C.text(r["glob_text"]) if h.get("rooted") else C.text(h["glob"])
        top = C.text(r["top"])
        for t in W.node_paths(dict(h, walk_from=h["walk_from"])):
            rel = W.rel_to(t, h["_base_text"])
            pairs.append(((g,), (top + "/" + t) if h.get("rooted") else rel))
        if not h["_plain_prefix"] and h["_post"] is not None:
            for t in W.node_paths(dict(h, walk_from=1)):
                if t.startswith(h["_anchor_text"] + "/"):
                    pairs.append(((h["_post"],), W.rel_to(t, h["_anchor_text"])))
    is_match = W.matches(pairs)
    n_oracle = 0
    for h in scenarios:
        r = results[h["sid"]]
        got = []
        for b in r["blocks"]:
            if b["item"]["k"] == "entry":
                f = b["item"]["facts"]
                got.append(os.path.normpath(C.text(f["path"]["p"])))
            elif b["item"]["k"] == "error" and (h["_anchor_text"] not in W.node_paths(dict(h, walk_from=1))
                                                or anchor_kind(h) != "dir"):
                pass  # the literal prefix of the glob does not exist or names a file: the walk reports that it cannot read it
            elif b["item"]["k"] in ("panic", "runaway", "error"):
                v.disagree({"t": "DISAGREE", "what": "walk_" + b["item"]["k"], "sid": h["sid"], "scenario": h}, "%s: %s" % (h["desc"], b["item"]))
        exp = {W.lossy(t) for t in expected_glob_yield(h, r, is_match)}
        base = h["_base_text"]
        got_below = [t for t in got if os.path.normpath(t) != base]
        n_oracle += 1
        sig = {"dotprefix": not h["_plain_prefix"], "rooted": bool(h.get("rooted"))}
        if sorted(got_below) != sorted(set(got_below)):
            v.disagree({"t": "DISAGREE", "what": "entry_yielded_twice", "sid": h["sid"], "sig": sig, "scenario": h}, "%s: yielded twice: %s" % (h["desc"], sorted(got_below)))
        missing = sorted(exp - set(got_below))
        extra = sorted(set(got_below) - exp)
        if missing:
            v.disagree({"t": "DISAGREE", "what": "matching_entry_not_yielded", "sid": h["sid"], "sig": sig, "scenario": h}, "%s: not yielded: %s" % (h["desc"], missing))
        if extra:
            v.disagree({"t": "DISAGREE", "what": "non_matching_entry_yielded", "sid": h["sid"], "sig": sig, "scenario": h}, "%s: yielded but not matched: %s" % (h["desc"], extra))
        if any(os.path.normpath(t) == base for t in got):
            g = C.text(r["glob_text"]) if h.get("rooted") else C.text(h["glob"])
            cand = (C.text(r["top"]) + "/" + base) if h.get("rooted") else ""
            if not is_match[((g,), cand)]:
                v.disagree({"t": "DISAGREE", "what": "base_yielded_without_matching", "sid": h["sid"], "sig": sig, "scenario": h}, "%s: the base was yielded but the glob does not match %r" % (h["desc"], cand))
    n_pruned = pruning_oracle("C02", scenarios, results, yielded, v, "walkcomp-c02")
    samples = [{"scenario": h["desc"], "yielded": [C.text(b["item"]["facts"]["path"]["p"]) for b in results[h["sid"]]["blocks"] if b["item"]["k"] == "entry"][:8]}
               for h in rnd.sample(scenarios, min(5, len(scenarios)))]
    rc = v.finish()
    C.write_evidence("C02", tier, "model_checking", {
        "glob_layer_verdicts_compared_with_component_programs": n_pruned,
        "states": sum(st["distinct"] for _, st in mc) + tstats["distinct"] + cs_stats["distinct"],
        "transitions": sum(st["generated"] for _, st in mc) + tstats["generated"] + cs_stats["generated"],
        "traces_validated_against_impl": ntraces,
        "samples": samples,
        "evaluations": len(scenarios) + cs_n, "distinct_nontrivial": len({(h["tree"], C.text(h["glob"]), h["walk_from"], h.get("rooted")) for h in scenarios}),
        "rule": "(i) model: every tree up to %d nodes x every pair of glob-layer tables satisfying ComponentSound x every sibling order: pruning never loses a match; (ii) ComponentSound discharged by TLC for %d built globs of the lexeme families (product of the glob's compiled automaton with its walk component automata, all paths); (iii) %d real glob walks (a library: unprefixed, literal prefix, rooted at the absolute scratch path, ./.. prefixes, bases inside the tree, three spellings of the base, hook traces validated against Walk.tla; and family walks: a seeded sample of the built members of core, mini, GenSeq and GenAlg over a three-level tree of directories a, b) whose yielded sets are compared with an independent traversal filtered by the real is_match; non-trivial = distinct (tree, glob, base, rooted)" % (n if tier == "quick" else 5, cs_n, len(scenarios)),
        "oracle_comparisons": n_oracle, "traces_skipped_non_native_prefix": sum(1 for h in scenarios if h.get("skip_trace")),
        "known_findings_hit": sorted(v.findings), "exhaustive": True,
    }, time.time() - t0, len(v.violations), WALK_TRUST + ["the yielded set is compared with an independent traversal (Python) filtered with the real is_match (C01 covers is_match)"])
    return rc


def component_sound(prop, tier, v):
    """ComponentSound(A, C1..Ck) for the globs of the lexeme families: TLC product (CompCheck.tla)"""
    # (case, flags: components whose literals carry different case flags; root: components behind a rooting repetition)
    cases = L.family_cases(tier, [("core", 5), ("dots", 4), ("case", 4), ("flags", 5), ("root", 5)] if tier == "quick"
                           else [("core", 6), ("dots", 5), ("case", 5), ("flags", 6), ("root", 6)])
    # nested branches with separators in front of further components: where component programs end
    cases += L.nest_cases(tier, len(cases) + 1, quick_fraction=0.04)
    obs_path = L.observe(cases, "dfa,walk", "comp-" + tier)
    out, stats = C.tlc("CompCheck.tla", "CompCheck.cfg", env={"OBS": obs_path}, timeout=3000, java_opts=["-Xmx12g"])
    if not stats["ok"]:
        C.log(stats.get("tail", ""))
        raise C.ToolError("TLC did not complete on CompCheck")
    by_id = None
    n = 0
    for r in C.tlc_records(out):
        if r["t"] == "IN":
            n += 1
        elif r["t"] == "DISAGREE":
            if by_id is None:
                by_id = {o["id"]: o for o in L.read_ndjson(obs_path)}
            v.disagree(r, "%r: path %r is matched although its component %d is rejected by the walk's component program (the walk would prune it)" % (
                L.expr_of(by_id[r["id"]]), C.text(r["path"]), r.get("comp", 0)))
    if n == 0:
        raise C.ToolError("vacuous run of CompCheck")
    return stats, n


CHECKS["C02"] = check_C02


def negation_sound(tier, v, extra_patterns=()):
    """returns (stats, n, {pattern text: id of the known finding that makes its exhaustive part unsound})"""
    cases = L.family_cases(tier, [("core", 5), ("dots", 4)] if tier == "quick" else [("core", 6), ("dots", 5)])
    # concatenated units: alternations and repetitions below the top level with branches of mixed exhaustiveness
    # (patterns reporting `sometimes`, which must stay out of the exhaustive program)
    cases += L.seq_cases(tier, len(cases) + 1)
    cases += L.alg_cases(tier, len(cases) + 1)      # ranges of every shape under repetition (the depth algebra)
    for p in extra_patterns:
        sigma = sorted(set(C.cps(p)) - set(C.cps("{}<>:,*?[]()!-\\$0123456789")) | {97, 98, 47, 10})
        cases.append({"id": len(cases) + 1, "kind": "glob", "fam": "walkneg", "e": C.cps(p), "sigma": sigma})
    obs_path = L.observe(cases, "dfa,neg", "neg-" + tier)
    out, stats = C.tlc("NegCheck.tla", "NegCheck.cfg", env={"OBS": obs_path}, timeout=3000, java_opts=["-Xmx12g"])
    if not stats["ok"]:
        C.log(stats.get("tail", ""))
        raise C.ToolError("TLC did not complete on NegCheck")
    by_id = None
    n = 0
    unsound = {}
    for r in C.tlc_records(out):
        if r["t"] == "IN":
            n += 1
        elif r["t"] == "DISAGREE":
            if by_id is None:
                by_id = {o["id"]: o for o in L.read_ndjson(obs_path)}
            k = C.match_known(v.known, "C03", r)
            unsound.setdefault(L.expr_of(by_id[r["id"]]), k["id"] if k else "unlisted")
            v.disagree(r, "not(%r): %r is beneath a path that the exhaustive program matches but is not matched by the negation itself: the tree would be discarded with it" % (
                L.expr_of(by_id[r["id"]]), C.text(r["path"])), pin=C.pin_of(by_id[r["id"]]))
    if n == 0:
        raise C.ToolError("vacuous run of NegCheck")
    return stats, n, unsound


NEGATIONS = [["**/b/**"], ["b/**"], ["**/*.txt"], ["a/b"], ["**/{b}"], ["**/.h/**", "**/y.txt"], [""], ["{a/**,**/y.txt}"], ["**/<a:1,2>"],
             # a directory that matches an exhaustive and a non-exhaustive alternative at once (it is discarded as a tree)
             ["{**/b/**,**/b}"], ["{a/**,a}"], ["**/b/**", "**/b"], ["{**/c,**/c/**,**/g}"],
             # several top-level alternations at once (nested in one another, as members of one any)
             ["{{**/c/**,*.txt},{**/g,b/**},a/x.txt}"], ["{**/*.txt,**/d}", "{**/c/**,b}"], ["{{a/x.txt,**/h},{b,**/f},{**/y.txt,**/g}}"],
             ["a/**"], ["**"], ["*"], ["**/c/**"], ["**/{f,g}"], ["<*/>"], ["a/b/**", "b"], ["**/b"], ["?/**"], ["nonexistent"], ["**/a/*"]]


def check_C03(tier):
    t0 = time.time()
    rnd = random.Random(C.SEED)
    v = C.Verdict("C03")
    n = 3 if tier == "quick" else 4
    mc = [("filters under NegationSound tables", W.model_check("neg", W.mc_consts(n, 2), ["NothingBeneathDiscarded", "CancelOnce", "Final", "SameAsEntryFilter"]))]
    for name, st in mc:
        if not st["ok"]:
            raise C.ToolError("the model itself violates an invariant (%s): %s" % (name, st.get("violation", st.get("tail", ""))[:1500]))
    ns_stats, ns_n, unsound = negation_sound(tier, v, sorted({p for neg in NEGATIONS for p in neg if p}))
    scenarios = []
    for tname in ("plain", "deep"):
        nodes, index = W.tree(W.TREES[tname])
        unders = [None, "**", "**/*.txt" if tname == "plain" else "**/g", "a/**/{f,g,h}" if tname == "deep" else "a/**", "{a,b}/**", "b/**"]
        for under in unders:
            for neg in NEGATIONS:
                if tier == "quick" and under not in (None, "**") and rnd.random() < 0.5:
                    continue
                for mode in (("text", "compiled") if tier == "thorough" else ("text" if len(scenarios) % 3 else "compiled",)):
                    h = {"sid": len(scenarios) + 1, "nodes": nodes, "follow": False, "min": -1, "max": -1, "rooted": False,
                         "walk_from": index["root"], "base": "abs", "tree": tname, "origin": "library",
                         "layers": [{"kind": "not", "patterns": [C.cps(p) for p in neg], "mode": mode}],
                         "desc": "%s over tree %s .not(%s as %s)" % ("path walk" if under is None else "glob %r" % under, tname, neg, mode)}
                    if under is not None:
                        h["glob"] = C.cps(under)
                    h["_neg"] = tuple(neg)
                    scenarios.append(h)
    # negations that match symbolic links (read as files and followed): discarding a link that is read as a file
    # skips nothing else
    nodes, index = W.tree(W.TREES["links"])
    for neg in (["**/tob/**"], ["**/up/**"], ["a/tob/**", "**/lf"], ["**/tob"], ["{**/tob/**,**/toa_f}"]):
        for follow in (False, True):
            for under in (None, "**"):
                h = {"sid": len(scenarios) + 1, "nodes": nodes, "follow": follow, "min": -1, "max": -1, "rooted": False,
                     "walk_from": index["root"], "base": "abs", "tree": "links", "origin": "library",
                     "layers": [{"kind": "not", "patterns": [C.cps(p) for p in neg], "mode": "text"}],
                     "desc": "%s over tree links (links read as %s) .not(%s)" % ("path walk" if under is None else "glob %r" % under, "targets" if follow else "files", neg)}
                if under is not None:
                    h["glob"] = C.cps(under)
                h["_neg"] = tuple(neg)
                scenarios.append(h)
    # two stacked negations and a negation next to an entry filter
    nodes, index = W.tree(W.TREES["deep"])
    for a, b in (("**/c/**", "**/g"), ("a/**", "**/h"), ("**/b/**", "**/b/**")):
        h = {"sid": len(scenarios) + 1, "nodes": nodes, "follow": False, "min": -1, "max": -1, "rooted": False, "walk_from": index["root"],
             "base": "abs", "tree": "deep", "origin": "library",
             "layers": [{"kind": "not", "patterns": [C.cps(a)], "mode": "text"}, {"kind": "filter", "verdicts": {"root/b": "file"}},
                        {"kind": "not", "patterns": [C.cps(b)], "mode": "compiled"}],
             "desc": "path walk over tree deep .not(%r).filter_entry(root/b: file).not(%r)" % (a, b), "_neg": (a, b), "_two": True}
        scenarios.append(h)
    pivots = W.prepare_glob_scenarios(scenarios)
    for h in scenarios:
        if h.get("glob") is None:
            h["_base_text"] = "root"
    results, yielded, tstats, ntraces = W.run_and_validate("C03", scenarios, "c03", v, pivots=pivots)
    # oracle: real is_match of the negation (and of the underlying glob) on root-relative paths
    pairs = []
    for h in scenarios:
        for t in W.node_paths(dict(h, walk_from=h["walk_from"])):
            rel = W.rel_to(t, h["_base_text"])
            if h.get("_two"):
                for p in h["_neg"]:
                    pairs.append(((p,), rel))
            else:
                pairs.append((h["_neg"], rel))
            if h.get("glob") is not None:
                pairs.append(((C.text(h["glob"]),), rel))
    is_match = W.matches(pairs)
    # the exhaustive program that not() compiles from each single negation (hook), over an alphabet that holds
    # every character of the trees: an entry that it matches must be discarded as a tree, and only such an entry
    exhaustive_accepts = exhaustive_tables(scenarios, "negwalk-" + tier)
    n_oracle = 0
    for h in scenarios:
        r = results[h["sid"]]
        got = sorted(os.path.normpath(C.text(b["item"]["facts"]["path"]["p"])) for b in r["blocks"] if b["item"]["k"] == "entry")
        paths = W.node_paths(dict(h, walk_from=h["walk_from"]))
        if h["tree"] == "links":
            # positions that are error items (dangling and re-entrant links read as targets) are not entries
            paths = {t: info["pos"] for t, info in reachable(h).items() if not info["kind"].startswith("err")}
        under = set()
        for t in paths:
            rel = W.rel_to(t, h["_base_text"])
            if h.get("glob") is None:
                under.add(t)
            elif rel != "" and is_match[((C.text(h["glob"]),), rel)]:
                under.add(t)
        def negated(rel):
            if h.get("_two"):
                return any(is_match[((p,), rel)] for p in h["_neg"])
            return is_match[(h["_neg"], rel)]
        filtered = {t for l in h["layers"] if l["kind"] == "filter" for t in l["verdicts"]}
        exp = sorted(t for t in under if not negated(W.rel_to(t, h["_base_text"])) and t not in filtered)
        sig = {"prefixed_glob": h.get("glob") is not None and pivots.get(h["sid"], 0) > 0, "neg": list(h["_neg"]),
               # the finding (if any) that TLC's NegationSound product reported for one of these negation patterns
               "neg_finding": next((unsound[p] for p in h["_neg"] if p in unsound), "none")}
        n_oracle += 1
        # per entry: the negation layer discards exactly the entries whose root-relative path it matches
        wrong_tree = []   # directories discarded as a tree although their root-relative path is not matched
        if not h.get("_two"):
            slot = r["slot_of"][0]
            for y in yielded.get(h["sid"], []):
                if y["err"] != "none" or not y["verdicts"]:
                    continue
                rel = W.rel_to(y["text"], h["_base_text"])
                verdict = y["verdicts"][slot - 1]
                m = is_match[(h["_neg"], rel)]
                if len(h["_neg"]) == 1 and not sig["prefixed_glob"]:
                    ex = exhaustive_accepts(h["_neg"][0], rel)
                    if ex is True and verdict != "tree":
                        v.disagree({"t": "DISAGREE", "what": "exhaustive_match_not_discarded_as_tree", "sid": h["sid"], "sig": sig, "scenario": h},
                                   "%s: entry %r matches an exhaustive alternative of the negation but not() answers %s" % (h["desc"], y["text"], verdict))
                    if ex is False and verdict == "tree":
                        v.disagree({"t": "DISAGREE", "what": "tree_discard_without_exhaustive_match", "sid": h["sid"], "sig": sig, "scenario": h},
                                   "%s: entry %r is discarded as a tree although no exhaustive alternative matches it" % (h["desc"], y["text"]))
                if (verdict != "keep") != m:
                    residue = y["ins"][slot - 1] != "F"
                    if verdict == "tree" and residue and sig["prefixed_glob"]:
                        wrong_tree.append(y["text"])
                    sig2 = dict(sig, residue_input=residue, verdict=verdict)
                    v.disagree({"t": "DISAGREE", "what": "negation_verdict_differs_from_is_match", "sid": h["sid"], "sig": sig2, "scenario": h},
                               "%s: entry %r (relative %r): not() answers %s but is_match is %s" % (h["desc"], y["text"], rel, verdict, m))
        got_cmp = [t for t in got if h.get("glob") is None or t != h["_base_text"]]
        exp_cmp = [t for t in exp if h.get("glob") is None or t != h["_base_text"]]
        missing = sorted(set(exp_cmp) - set(got_cmp))
        extra = sorted(set(got_cmp) - set(exp_cmp))
        if missing:
            sig3 = dict(sig, beneath_residue_tree_discard=bool(wrong_tree) and all(any(t.startswith(d + "/") for d in wrong_tree) for t in missing))
            v.disagree({"t": "DISAGREE", "what": "entry_lost_by_negation", "sid": h["sid"], "sig": sig3, "scenario": h},
                       "%s: entries that do not match the negation are missing: %s" % (h["desc"], missing))
        if extra:
            v.disagree({"t": "DISAGREE", "what": "negated_entry_yielded", "sid": h["sid"], "sig": sig, "scenario": h},
                       "%s: yielded although matched by the negation (or not by the glob): %s" % (h["desc"], extra))
    # product scenarios (tree x walk kind x link behaviour x depth behaviour x stacks of filters and negations): traces
    # validated, and every verdict that a negation gives on an entry that reaches it undiscarded is compared with the
    # real is_match on the root-relative path
    prod = [h for h in W.product_scenarios(random.Random(C.SEED + 3), 150 if tier == "quick" else 1500, 100001)
            if any(l["kind"] == "not" for l in h["layers"])]
    ppiv = W.prepare_glob_scenarios(prod)
    for h in prod:
        if h.get("glob") is None:
            h["_base_text"] = "root"
    presults, pyielded, ptstats, pntraces = W.run_and_validate("C03", prod, "c03p", v, pivots=ppiv)
    ppairs = []
    for h in prod:
        for y in pyielded.get(h["sid"], []):
            if y["err"] == "none" and y["text"] is not None:
                for l in h["layers"]:
                    if l["kind"] == "not":
                        ppairs.append(((C.text(l["patterns"][0]),), W.rel_to(y["text"], h["_base_text"])))
    pmatch = W.matches(ppairs)
    n_prod = 0
    for h in prod:
        if h.get("glob") is not None and ppiv.get(h["sid"], 0) > 0:
            continue    # (behind a prefixed glob: KF11)
        slots = presults[h["sid"]]["slot_of"]
        for y in pyielded.get(h["sid"], []):
            if y["err"] != "none" or not y["verdicts"] or y["text"] is None:
                continue
            rel = W.rel_to(y["text"], h["_base_text"])
            for l, slot in zip(h["layers"], slots):
                if l["kind"] != "not" or y["ins"][slot - 1] != "F":
                    continue
                n_prod += 1
                m = pmatch[((C.text(l["patterns"][0]),), rel)]
                if (y["verdicts"][slot - 1] != "keep") != m:
                    v.disagree({"t": "DISAGREE", "what": "negation_verdict_differs_from_is_match", "sid": h["sid"], "scenario": h,
                                "sig": {"prefixed_glob": False, "neg": [C.text(l["patterns"][0])], "neg_finding": "none", "residue_input": False, "verdict": y["verdicts"][slot - 1]}},
                               "%s: entry %r (relative %r): not(%r) answers %s but is_match is %s" % (h["desc"], y["text"], rel, C.text(l["patterns"][0]), y["verdicts"][slot - 1], m))
    ntraces += pntraces
    samples = [{"scenario": h["desc"], "yielded": [os.path.normpath(C.text(b["item"]["facts"]["path"]["p"])) for b in results[h["sid"]]["blocks"] if b["item"]["k"] == "entry"][:8]}
               for h in rnd.sample(scenarios, min(5, len(scenarios)))]
    rc = v.finish()
    C.write_evidence("C03", tier, "model_checking", {
        "product_scenarios": {"walks": len(prod), "negation_verdicts_compared": n_prod, "trace_states": ptstats["distinct"]},
        "states": sum(st["distinct"] for _, st in mc) + tstats["distinct"] + ns_stats["distinct"],
        "transitions": sum(st["generated"] for _, st in mc) + tstats["generated"] + ns_stats["generated"],
        "traces_validated_against_impl": ntraces,
        "samples": samples,
        "evaluations": len(scenarios) + ns_n, "distinct_nontrivial": len({(h["tree"], C.text(h["glob"]) if h.get("glob") else None, h["_neg"]) for h in scenarios}),
        "rule": "(i) model: under NegationSound-consistent verdict tables, tree discards give the result of per-entry filtering (all trees up to %d nodes, 2 layers, all orders); (ii) NegationSound discharged by TLC for %d negation patterns of the lexeme families with an exhaustive part (product exhaustive automaton x whole-pattern automaton x obligation monitor, all paths); (iii) %d real walks (path walks, glob walks with and without prefix) x %d negations (expressions, compiled, any of several, the empty pattern, partially exhaustive alternations), traces validated against Walk.tla, yielded set and every not() verdict compared with the real is_match on the root-relative path" % (n, ns_n, len(scenarios), len(NEGATIONS)),
        "oracle_comparisons": n_oracle, "known_findings_hit": sorted(v.findings), "exhaustive": True,
    }, time.time() - t0, len(v.violations), WALK_TRUST + ["oracle: per-entry filtering with the real is_match (C01 covers is_match)"])
    return rc


CHECKS["C03"] = check_C03


def entry_records(scenarios, results):
    recs = []
    for h in scenarios:
        r = results[h["sid"]]
        for b in r["blocks"]:
            if b["item"]["k"] == "entry":
                f = dict(b["item"]["facts"])
                f.setdefault("matched", [])
                f.setdefault("candidate", [])
                f.setdefault("is_match_rel", True)
                for k in ("path", "root"):
                    f[k] = f[k]["p"]
                recs.append({"sid": h["sid"], "glob": h.get("glob") is not None, "rooted": bool(h.get("rooted")), "f": f})
    return recs


def path_algebra(tier):
    """binds spec/PathAlg.tla to std::path: TLC writes every byte string up to a length over `/ . a`, the harness
    evaluates std on every ordered pair, TLC validates every operator of the model and the laws of the algebra"""
    n = 4 if tier == "quick" else 5
    tmp = C.scratch()
    try:
        strings = os.path.join(tmp, "strings.ndjson")
        out, st = C.tlc("PathAlgCheck.tla", "PathAlgCheck.cfg", env={"MODE": "gen", "OUT": strings, "MAXLEN": str(n)}, timeout=600, workers=2)
        if not st["ok"] or not os.path.exists(strings):
            C.log(st.get("tail", ""))
            raise C.ToolError("TLC did not write the strings of PathAlgCheck")
        obs = os.path.join(tmp, "pairs.ndjson")
        C.run_wv(["pathalg", strings, obs])
        out, st = C.tlc("PathAlgCheck.tla", "PathAlgCheck.cfg", env={"MODE": "check", "OBS": obs}, timeout=1800)
        if not st["ok"]:
            C.log(st.get("tail", ""))
            raise C.ToolError("TLC did not complete on PathAlgCheck")
        bad = [r for r in C.tlc_records(out) if r["t"] == "MODEL"]
        if bad:
            raise C.ToolError("PathAlg.tla does not agree with std::path: %s on %r, %r" % (bad[0]["what"], bytes(bad[0]["a"]), bytes(bad[0]["b"])))
        with open(obs) as f:
            pairs = sum(1 for _ in f)
        return {"max_len": n, "pairs": pairs, "states": st["distinct"]}
    finally:
        shutil.rmtree(tmp, ignore_errors=True)


def check_C14(tier):
    t0 = time.time()
    rnd = random.Random(C.SEED)
    v = C.Verdict("C14")
    scenarios = W.glob_scenarios("thorough", 1, rnd)   # all spellings of the base
    # depth and link behaviours on top, and plain path walks
    extra = []
    for h in rnd.sample(scenarios, 25 if tier == "quick" else 120):
        for mn, mx in ((1, -1), (-1, 2), (1, 3)):
            h2 = dict(h, min=mn, max=mx, desc=h["desc"] + " depth %s..%s" % (mn, mx))
            extra.append(h2)
    nodes, index = W.tree(W.TREES["links"])
    for g in ("**", "a/**", "**/g", "*"):
        for follow in (False, True):
            extra.append({"nodes": nodes, "follow": follow, "min": -1, "max": -1, "glob": C.cps(g), "rooted": False, "walk_from": index["root"],
                          "base": "abs", "layers": [], "tree": "links", "origin": "library", "desc": "glob %r over tree links (follow=%s)" % (g, follow)})
    # file names that are not valid UTF-8: the relative segment is a path, not a text
    nodes, index = W.tree(W.TREES["bytes"])
    for g in ("**", "**/*.txt", "a/**", "*/*", "a/*/g.txt", "a/b*.txt", "a/{b,m}.txt", "**/*b.txt", "a/m$.txt"):
        for base in ("abs", "trailing"):
            extra.append({"nodes": nodes, "follow": False, "min": -1, "max": -1, "glob": C.cps(g), "rooted": False, "walk_from": index["root"],
                          "base": base, "layers": [], "tree": "bytes", "origin": "library", "desc": "glob %r over tree bytes (names that are not UTF-8; %s)" % (g, base)})
    # a walk that is given a symbolic link to a directory as its root (links read as targets): the root segment is
    # the given path, not the link's target; also a glob whose literal prefix ends at the link
    nodes, index = W.tree(W.TREES["links"])
    for g in (None, "**", "*"):
        for spelling in ("abs", "trailing"):
            h = {"nodes": nodes, "follow": True, "min": -1, "max": -1, "rooted": False, "walk_from": index["root/a/tob"],
                 "base": spelling, "layers": [], "tree": "links", "origin": "library",
                 "desc": "%s from the link root/a/tob (links read as targets; %s)" % ("path walk" if g is None else "glob %r" % g, spelling)}
            if g is not None:
                h["glob"] = C.cps(g)
            extra.append(h)
    for g in ("a/tob/*", "a/tob/**", "a/up/b/*"):
        extra.append({"nodes": nodes, "follow": True, "min": -1, "max": -1, "glob": C.cps(g), "rooted": False, "walk_from": index["root"],
                      "base": "abs", "layers": [], "tree": "links", "origin": "library", "desc": "glob %r over tree links (its prefix ends at a link; links read as targets)" % g})
    for tname in ("plain", "deep", "links", "bytes"):
        nodes, index = W.tree(W.TREES[tname])
        for base in ("root", "root/a"):
            for spelling in ("abs", "trailing", "dot"):
                extra.append({"nodes": nodes, "follow": tname == "links", "min": -1, "max": -1, "rooted": False, "walk_from": index[base],
                              "base": spelling, "layers": [], "tree": tname, "origin": "library", "desc": "path walk of %s in tree %s (%s)" % (base, tname, spelling)})
    # a walk that is given a regular file: the file itself is the only entry, its root segment the path as given
    for tname, fname in (("plain", "root/a/x.txt"), ("deep", "root/f"), ("deep", "root/a/b/g")):
        nodes, index = W.tree(W.TREES[tname])
        for g in (None, "**", ""):
            for spelling in ("abs", "rel"):
                h = {"nodes": nodes, "follow": False, "min": -1, "max": -1, "rooted": False, "walk_from": index[fname],
                     "base": spelling, "layers": [], "tree": tname, "origin": "library",
                     "desc": "%s from the regular file %s in tree %s (%s)" % ("path walk" if g is None else "glob %r" % g, fname, tname, spelling)}
                if g is not None:
                    h["glob"] = C.cps(g)
                extra.append(h)
    # a base given relative to the current directory, with and without a leading `.` component (`root/a`, `./root/a`):
    # the root segment is the directory as given
    for tname in ("plain", "deep"):
        nodes, index = W.tree(W.TREES[tname])
        for base in ("root", "root/a"):
            for spelling in ("rel", "reldot", "empty"):
                for g in (None, "**", "a/**", "b/**", "*/*", "a/b/*", "**/*.txt" if tname == "plain" else "**/g"):
                    h = {"nodes": nodes, "follow": False, "min": -1, "max": -1, "rooted": False, "walk_from": index[base],
                         "base": spelling, "layers": [], "tree": tname, "origin": "library",
                         "desc": "%s from %s in tree %s (base spelled %s)" % ("path walk" if g is None else "glob %r" % g, base, tname,
                                                                             {"rel": "relative to the current directory", "reldot": "with a leading ./", "empty": "as the empty path, being the current directory"}[spelling])}
                    if g is not None:
                        h["glob"] = C.cps(g)
                    extra.append(h)
    scenarios += extra
    for i, h in enumerate(scenarios):
        h["sid"] = i + 1
        h["skip_trace"] = True      # traces of these shapes are validated by C02 / C15; here the entries are the subject
    W.prepare_glob_scenarios(scenarios)
    results = W.run_walks(scenarios, "c14")
    recs = entry_records(scenarios, results)
    d = C.cache_dir("obs", "%s-%s" % (C.repo_hash(), C.harness_hash()))
    path = os.path.join(d, "entries-%s.ndjson" % tier)
    L.write_ndjson(path, recs)
    out, stats = C.tlc("EntryCheck.tla", "EntryCheck.cfg", env={"OBS": path}, timeout=3000)
    if not stats["ok"]:
        C.log(stats.get("tail", ""))
        raise C.ToolError("TLC did not complete on EntryCheck")
    by_sid = {h["sid"]: h for h in scenarios}
    nd = 0
    palg = path_algebra(tier)
    for r in C.tlc_records(out):
        if r["t"] == "MODEL":
            raise C.ToolError("PathAlg.tla and std::path disagree on a recorded entry (%s, record %d)" % (r["what"], r["rec"]))
        if r["t"] == "DISAGREE":
            nd += 1
            f = recs[r["rec"] - 1]["f"]
            h = by_sid[r["sid"]]
            r["sig"] = {"dotprefix": h.get("glob") is not None and not h.get("_plain_prefix", True)}
            v.disagree(r, "%s: entry %r (root %r, relative %r, depth %d): %s" % (h["desc"], C.text(f["path"]), C.text(f["root_raw"]), C.text(f["rel"]), f["depth"], r["what"]))
    if not recs:
        raise C.ToolError("no entries recorded")
    samples = [{"scenario": by_sid[x["sid"]]["desc"], "path": C.text(x["f"]["path"]), "root": C.text(x["f"]["root_raw"])[-30:], "relative": C.text(x["f"]["rel"]), "depth": x["f"]["depth"]}
               for x in rnd.sample(recs, min(6, len(recs)))]
    rc = v.finish()
    C.write_evidence("C14", tier, "model_checking", {
        "states": stats["distinct"], "transitions": stats["generated"],
        "traces_validated_against_impl": len(recs),
        "samples": samples,
        "evaluations": len(recs), "distinct_nontrivial": len({(x["sid"], tuple(x["f"]["path"])) for x in recs if x["f"]["depth"] > 0}),
        "rule": "records = every entry yielded by %d real walks: globs (unprefixed, prefixed, rooted at the absolute scratch path, ./.. prefixes) over three trees x bases inside the tree x base spelled absolute / with trailing separator / with a . component, with depth behaviours and both link behaviours, and plain path walks; joining, components and equality of paths are derived by the specification (PathAlg.tla) from the raw bytes of path, root segment, relative segment and given directory (EntryCheck!Consistent); PathAlg is bound to std::path on all %d ordered pairs of byte strings up to length %d over `/ . a` (every operator equal, the laws of join / strip hold: PathAlgCheck) and on every recorded entry (EntryCheck!StdAgrees); bases also given relative to the current directory (root/a, ./root/a); non-trivial = entries below the walk root" % (len(scenarios), palg["pairs"], palg["max_len"]),
        "path_algebra": palg,
        "disagreements": nd, "known_findings_hit": sorted(v.findings), "exhaustive": False,
    }, time.time() - t0, len(v.violations), ["TLC", "std::path is what the statement's notions (join, components) are defined by; PathAlg.tla restates them and is checked against std exhaustively on short byte strings"])
    return rc


CHECKS["C14"] = check_C14


def reachable(h, with_faults=True):
    """independent traversal: {text: dict(pos, kind)} for everything the link policy reaches from the walked
    node; kind: dir | file | err-io | err-loop; unreadable directories are entered only if with_faults is False"""
    byid = W.node_by_id(h)
    ch = W.children_of(h)
    out = collections.OrderedDict()

    def real_path(nid):
        parts = []
        while nid:
            parts.append(C.text(byid[nid]["name"]))
            nid = byid[nid]["parent"]
        return "/".join(reversed(parts))

    def rec(pos, text):
        nd = byid[pos[-1]]
        kind = "file"
        d = pos[-1]
        if nd["kind"] == "link" and h["follow"]:
            if nd["target"] == 0:
                out[text] = {"pos": pos, "kind": "err-io"}
                return
            d = nd["target"]
            if byid[d]["kind"] == "dir":
                if any(W.resolve(h, p) == d for p in pos[:-1]):
                    out[text] = {"pos": pos, "kind": "err-loop"}
                    return
                kind = "dir"
        elif nd["kind"] == "dir":
            kind = "dir"
        out[text] = {"pos": pos, "kind": kind, "locked": kind == "dir" and not byid[d]["readable"]}
        if kind == "dir" and (byid[d]["readable"] or not with_faults):
            for c in ch[d]:
                rec(pos + [c["id"]], text + "/" + C.text(c["name"]))
    start = h.get("walk_from", 1)
    rec([start], real_path(start))
    return out


def check_C15(tier):
    t0 = time.time()
    rnd = random.Random(C.SEED)
    v = C.Verdict("C15")
    n = 3 if tier == "quick" else 4
    mc = [("links and depth bounds", W.model_check("links", W.mc_consts(n, 1, links=True, depths=True), ["NothingBeneathDiscarded", "CancelOnce", "CancelPopsOwnFrame", "DepthBounded", "NoDescentThroughLinks", "Final"]))]
    # liveness: every behaviour terminates (checked without a state constraint, under weak fairness)
    live = W.model_check("live", W.mc_consts(3, 1, links=True, depths=False), [], properties=["Terminates"], spec="MCSpec")
    mc.append(("termination (liveness, weak fairness)", live))
    for name, st in mc:
        if not st["ok"]:
            raise C.ToolError("the model itself violates a property (%s): %s" % (name, st.get("violation", st.get("tail", ""))[:1500]))
    scenarios = []
    bounds = [(-1, -1), (1, -1), (2, -1), (-1, 0), (-1, 1), (-1, 2), (1, 1), (1, 2), (2, 3), (3, 4), (2, 2), (4, -1), (-1, 4)]
    if tier == "quick":
        bounds = [(-1, -1), (1, -1), (-1, 0), (-1, 1), (1, 2), (2, 3), (3, -1), (-1, 2)]
    # (a/b/c/f and a/b are invariant globs: the prefix is the whole glob; they also run with minima beyond their depth)
    for tname, globs in (("deep", [None, "**", "a/**", "a/b/**", "a/b/c/*", "**/g", "a/b/c/f", "a/b"]), ("links", [None, "**", "a/**", "**/g", "a/tob/*"])):
        # (a glob whose literal prefix passes through a link starts its walk at the link: only with links read as targets)
        nodes, index = W.tree(W.TREES[tname])
        for g in globs:
            for mn, mx in (bounds + [(5, -1), (3, -1), (4, 4), (2, -1), (5, 6)] if g in ("a/b/c/f", "a/b") else bounds):
                for follow in ((False, True) if tname == "links" else (False,)):
                    if g == "a/tob/*" and not follow:
                        continue
                    h = {"sid": len(scenarios) + 1, "nodes": nodes, "follow": follow, "min": mn, "max": mx, "rooted": False, "walk_from": index["root"],
                         "base": "abs", "layers": [], "tree": tname, "origin": "library",
                         "desc": "%s over tree %s, depth %s..%s, links read as %s" % ("path walk" if g is None else "glob %r" % g, tname, mn if mn > 0 else 0, mx if mx >= 0 else "inf", "targets" if follow else "files")}
                    if g is not None:
                        h["glob"] = C.cps(g)
                    scenarios.append(h)
                    # the same bounds through the other public constructors of a depth behaviour
                    if not follow and g in (None, "a/**"):
                        ctors = (["from_depths", "from_depths_swapped"] if mx >= 0 else ["from_min"]) + (["from_max"] if mx >= 0 and mn <= 0 else [])
                        for ctor in ctors:
                            if mx >= 0 and mn > mx:
                                continue
                            scenarios.append(dict(h, sid=len(scenarios) + 1, ctor=ctor, desc=h["desc"] + " (built with %s)" % ctor))
                        scenarios.append(dict(h, sid=len(scenarios) + 1, wb="from_depth", desc=h["desc"] + " (WalkBehavior::from(depth))"))
                    # the behaviour through the public conversions that keep the defaults of the other field
                    if mn <= 0 and mx < 0 and g in (None, "**", "a/**"):
                        for wb in (("from_link",) if follow else ("from_link", "from_unit", "default")):
                            scenarios.append(dict(h, sid=len(scenarios) + 1, wb=wb, desc=h["desc"] + " (WalkBehavior %s)" % wb))
    # walks that start at something other than the top directory: a file, a sub-directory, and (links read as
    # targets) links to a file / a directory / an ancestor and a dangling link
    nodes, index = W.tree(W.TREES["links"])
    for start in ("root/a/f", "root/lf", "root/a/tob", "root/a/up", "root/dangling", "root/b"):
        for mn, mx in ((-1, -1), (1, -1), (-1, 0), (-1, 1)):
            for follow in (False, True):
                # a link given as the root of a walk that reads links as files: walkdir follows it, the
                # documentation of LinkBehavior::ReadFile does not say (unspecified, not exercised)
                if not follow and start not in ("root/a/f", "root/b"):
                    continue
                scenarios.append({"sid": len(scenarios) + 1, "nodes": nodes, "follow": follow, "min": mn, "max": mx, "rooted": False,
                                  "walk_from": index[start], "base": "abs", "layers": [], "tree": "links", "origin": "library", "_base_text": start,
                                  "desc": "path walk from %s in tree links, depth %s..%s, links read as %s" % (start, mn if mn > 0 else 0, mx if mx >= 0 else "inf", "targets" if follow else "files")})
    # the walked directory given as the empty path (it is the current directory) or relative to the current directory:
    # the bounds still count from that directory, whatever the traversal root looks like
    nodes, index = W.tree(W.TREES["deep"])
    for spelling in ("empty", "reldot"):
        for g in ("a/**", "a/b/**", "**", "a/b/c/*"):
            if spelling == "empty" and g == "**":
                continue    # (the empty path names no directory: a walk that has to read it yields an error item and nothing else)
            for mn, mx in ((1, -1), (2, -1), (3, -1), (-1, 1), (-1, 2), (2, 3), (1, 2), (3, 3)):
                scenarios.append({"sid": len(scenarios) + 1, "nodes": nodes, "follow": False, "min": mn, "max": mx, "rooted": False, "glob": C.cps(g),
                                  "walk_from": index["root"], "base": spelling, "layers": [], "tree": "deep", "origin": "library",
                                  "desc": "glob %r over tree deep, the walked directory given as %s, depth %s..%s" % (
                                      g, "the empty path" if spelling == "empty" else "./root", mn if mn > 0 else 0, mx if mx >= 0 else "inf")})
    pivots = W.prepare_glob_scenarios(scenarios)
    for h in scenarios:
        if h.get("glob") is None:
            h.setdefault("_base_text", "root")
        # a maximum below the length of the prefix excludes every reachable depth: nothing to validate as a trace
        if h.get("glob") is not None and h["max"] >= 0 and h["max"] < pivots.get(h["sid"], 0):
            h["skip_trace"] = True
            h["_excluded"] = True
    results, yielded, tstats, ntraces = W.run_and_validate("C15", scenarios, "c15", v, pivots=pivots)
    def reach(h):
        # the traversal starts where the walk starts: at the anchor (base joined with the glob's prefix)
        return reachable(dict(h, walk_from=h.get("anchor", h["walk_from"])))
    pairs = []
    for h in scenarios:
        if h.get("glob") is not None and not h.get("_excluded"):
            for t in reach(h):
                pairs.append(((C.text(h["glob"]),), W.rel_to(t, h["_base_text"])))
    is_match = W.matches(pairs)
    n_oracle = 0
    for h in scenarios:
        r = results[h["sid"]]
        got, errors = [], []
        for b in r["blocks"]:
            k = b["item"]["k"]
            if k == "entry":
                got.append(os.path.normpath(C.text(b["item"]["facts"]["path"]["p"])))
            elif k == "error":
                errors.append((os.path.normpath(C.text(b["item"]["path"]["p"])) if b["item"].get("path") else None, b["item"]["text"]))
            elif k in ("panic", "runaway"):
                v.disagree({"t": "DISAGREE", "what": "walk_" + k, "sid": h["sid"], "scenario": h}, "%s: %s" % (h["desc"], b["item"]))
        mn = h["min"] if h["min"] > 0 else 0
        mx = h["max"] if h["max"] >= 0 else 10 ** 6
        exp = []
        exp_err = []
        # entries beyond the maximum depth are never reached, so faults beyond it are not reported either
        for t, info in ({} if h.get("_excluded") else reach(h)).items():
            rel = W.rel_to(t, h["_base_text"])
            depth = 0 if rel == "" else len(rel.split("/"))
            # a position is only reached if all its ancestors are within the maximum
            if depth > mx:
                continue
            if info["kind"].startswith("err"):
                if h.get("glob") is None or True:
                    exp_err.append(t)
                continue
            if depth < mn:
                continue
            if h.get("glob") is not None and (rel == "" or not is_match[((C.text(h["glob"]),), rel)]):
                continue
            exp.append(t)
        n_oracle += 1
        sig = {"max_below_prefix": bool(h.get("_excluded")), "follow": h["follow"]}
        got_cmp = sorted(t for t in got if h.get("glob") is None or t != h["_base_text"])
        exp_cmp = sorted(t for t in exp if h.get("glob") is None or t != h["_base_text"])
        if h.get("_excluded"):
            if got:
                v.disagree({"t": "DISAGREE", "what": "entry_yielded_although_bounds_exclude_every_depth", "sid": h["sid"], "sig": sig, "scenario": h},
                           "%s: the bounds exclude every reachable depth but %s was yielded" % (h["desc"], got))
            continue
        if got_cmp != exp_cmp:
            v.disagree({"t": "DISAGREE", "what": "yielded_set_differs_from_bounded_traversal", "sid": h["sid"], "sig": sig, "scenario": h},
                       "%s: missing %s, unexpected %s" % (h["desc"], sorted(set(exp_cmp) - set(got_cmp)), sorted(set(got_cmp) - set(exp_cmp))))
        # errors: only below a pruned glob component they may be absent; for path walks exactly the faults
        if h.get("glob") is None:
            if sorted(e[0] for e in errors) != sorted(exp_err):
                v.disagree({"t": "DISAGREE", "what": "error_items_differ", "sid": h["sid"], "sig": sig, "scenario": h},
                           "%s: error items %s, expected one for each of %s" % (h["desc"], errors, exp_err))
            for p, text in errors:
                kind = reach(h).get(p, {}).get("kind")
                if kind == "err-loop" and "cycle" not in text:
                    v.disagree({"t": "DISAGREE", "what": "reentrant_link_not_reported_as_cycle", "sid": h["sid"], "sig": sig, "scenario": h}, "%s: %s: %s" % (h["desc"], p, text))
        if not h["follow"]:
            for t in got:
                parts = t.split("/")
                for i in range(1, len(parts)):
                    anc = "/".join(parts[:i])
                    info = reachable(dict(h, follow=False)).get(anc)
                    if info and W.node_by_id(h)[info["pos"][-1]]["kind"] == "link":
                        v.disagree({"t": "DISAGREE", "what": "descended_through_link_read_as_file", "sid": h["sid"], "sig": sig, "scenario": h}, "%s: %s" % (h["desc"], t))
    samples = [{"scenario": h["desc"], "yielded": [os.path.normpath(C.text(b["item"]["facts"]["path"]["p"])) for b in results[h["sid"]]["blocks"] if b["item"]["k"] == "entry"][:8]}
               for h in rnd.sample(scenarios, min(5, len(scenarios)))]
    rc = v.finish()
    C.write_evidence("C15", tier, "model_checking", {
        "states": sum(st["distinct"] for _, st in mc) + tstats["distinct"], "transitions": sum(st["generated"] for _, st in mc) + tstats["generated"],
        "traces_validated_against_impl": ntraces,
        "samples": samples,
        "evaluations": len(scenarios), "distinct_nontrivial": sum(1 for h in scenarios if h["min"] > 0 or h["max"] >= 0 or h["follow"]),
        "rule": "model: every tree up to %d nodes with links to every target (dangling included), both link policies, depth bounds min 0..2 x max 0..2/none, all sibling orders: bounds respected, no descent through links read as files, termination as a liveness property under weak fairness; real: %d walks (path walks and globs with prefixes of length 0..3 over a deep tree and a tree with links to a file, to directories, dangling and re-entrant) x %d (min,max) pairs x both link behaviours: traces validated against Walk.tla (bounds translated by the pivot), yielded sets compared with an independent bounded traversal filtered by the real is_match; non-trivial = bounded or following links" % (n, len(scenarios), len(bounds)),
        "oracle_comparisons": n_oracle, "known_findings_hit": sorted(v.findings), "exhaustive": True,
    }, time.time() - t0, len(v.violations), WALK_TRUST)
    return rc


CHECKS["C15"] = check_C15


def check_C20(tier):
    t0 = time.time()
    rnd = random.Random(C.SEED)
    v = C.Verdict("C20")
    n = 3 if tier == "quick" else 4
    mc = [("links, unreadable directories, one layer", W.model_check("faults", W.mc_consts(n, 1, links=True, faults=True), ["NothingBeneathDiscarded", "CancelOnce", "CancelPopsOwnFrame", "Final"]))]
    if tier == "thorough":
        mc.append(("unreadable directories, two layers", W.model_check("faults2", W.mc_consts(4, 2, faults=True), ["NothingBeneathDiscarded", "CancelOnce", "CancelPopsOwnFrame", "Final"])))
    for name, st in mc:
        if not st["ok"]:
            raise C.ToolError("the model itself violates a property (%s): %s" % (name, st.get("violation", st.get("tail", ""))[:1500]))
    # scenarios: TLC-enumerated ones with faults, and a library
    scenarios = []
    count = 120 if tier == "quick" else 1500
    faulty = lambda s: (not all(s["readable"])) or any(k == "link" for k in s["kind"])
    for k, sc in enumerate(sample_model_scenarios(tier, rnd, count, W.mc_consts(4, 1, links=True, faults=True), "n4l1lf", faulty)):
        scenarios.append(W.from_model(sc, len(scenarios) + 1))
        # every third scenario also with depth bounds: a fault is reported whatever the minimum depth
        if k % 3 == 0:
            mn, mx = rnd.choice([(1, 100), (2, 100), (3, 100), (1, 2), (2, 2), (0, 1)])
            h = W.from_model(dict(sc, min=mn, max=mx), len(scenarios) + 1)
            h["variant"] = "depth %d..%s" % (mn, mx if mx < 100 else "inf")
            scenarios.append(h)
    specs = {
        "faults": W.TREES["faults"],
        "first": {"a": ("locked", {"x": None}), "b": {"f": None}, "c": None},
        "last": {"a": {"f": None}, "z": ("locked", {"x": None})},
        "nested": {"a": {"b": ("locked", {"c": {"d": None}}), "g": None}, "h": None},
        "several": {"a": ("locked", {}), "b": ("locked", {"x": None}), "c": {"d": ("locked", {})}, "l1": ("link", None), "l2": ("link", None), "f": None},
        "loops": {"a": {"up": ("link", "root"), "self": ("link", "root/a"), "f": None}, "b": {"toa": ("link", "root/a")}},
    }
    stacks = [[], [{"kind": "not", "patterns": [C.cps("**/f")], "mode": "text"}],
              [{"kind": "filter", "verdicts": {"root/a": "file"}}, {"kind": "not", "patterns": [C.cps("**/z/**")], "mode": "text"}],
              [{"kind": "filter", "verdicts": {"root/locked": "tree", "root/a": "tree"}}],
              [{"kind": "not", "patterns": [C.cps("**/locked"), C.cps("**/b/**")], "mode": "compiled"}, {"kind": "filter", "verdicts": {"root/c": "file"}}]]
    for tname, spec in specs.items():
        nodes, index = W.tree(spec)
        for follow in (False, True):
            for st in stacks:
                for g in (None, "**") if tier == "quick" else (None, "**", "*/*", "**/f"):
                    h = {"sid": len(scenarios) + 1, "nodes": nodes, "follow": follow, "min": -1, "max": -1, "rooted": False, "walk_from": index["root"],
                         "base": "abs", "layers": st, "tree": tname, "origin": "library",
                         "desc": "%s over tree %s (links read as %s) with %d combinators" % ("path walk" if g is None else "glob %r" % g, tname, "targets" if follow else "files", len(st))}
                    if g is not None:
                        h["glob"] = C.cps(g)
                    scenarios.append(h)
    # globs with a literal prefix and depth behaviours built through every constructor: faults beneath the prefix
    for tname in ("loops", "nested", "faults"):
        nodes, index = W.tree(specs[tname])
        for follow in (False, True):
            for (mn, mx, ctor) in ((1, -1, "bounded"), (1, -1, "from_min"), (2, -1, "bounded"), (1, 3, "from_depths"), (-1, 2, "from_max"), (-1, -1, "bounded")):
                scenarios.append({"sid": len(scenarios) + 1, "nodes": nodes, "follow": follow, "min": mn, "max": mx, "ctor": ctor, "rooted": False,
                                  "walk_from": index["root"], "base": "abs", "layers": [], "tree": tname, "origin": "library", "glob": C.cps("a/**"),
                                  "trace_only": True,   # judged by trace validation (loops are relative to the walk's root, bounds by the pivot)
                                  "desc": "glob 'a/**' over tree %s (links read as %s), depth %s..%s (%s)" % (
                                      tname, "targets" if follow else "files", mn if mn > 0 else 0, mx if mx >= 0 else "inf", ctor)})
    # the walked directory itself is unreadable
    nodes, index = W.tree({"locked": ("locked", {"x": None})})
    scenarios.append({"sid": len(scenarios) + 1, "nodes": nodes, "follow": False, "min": -1, "max": -1, "rooted": False, "walk_from": index["root/locked"],
                      "base": "abs", "layers": [], "tree": "rootlocked", "origin": "library", "desc": "path walk of an unreadable directory"})
    # the product of the dimensions over the trees with faults and links: walk kind x link behaviour x depth behaviour x
    # stacks of filters and negations; judged by trace validation (one error item per fault that the walk reaches, in
    # place, past every layer)
    for h in W.product_scenarios(random.Random(C.SEED + 20), 90 if tier == "quick" else 900, len(scenarios) + 1, trees=("faults", "links", "faults")):
        scenarios.append(dict(h, trace_only=True))
    pivots = W.prepare_glob_scenarios(scenarios)
    for h in scenarios:
        if h.get("glob") is None:
            h["_base_text"] = "/".join(C.text(W.node_by_id(h)[p]["name"]) for p in ancestors_of(h, h.get("walk_from", 1)))
    results, yielded, tstats, ntraces = W.run_and_validate("C20", scenarios, "c20", v, as_nobody=True, pivots=pivots)
    for h in scenarios:
        if results[h["sid"]].get("euid") == 0:
            raise C.ToolError("fault scenarios ran as root: permission faults are not real")
    n_oracle = 0
    for h in scenarios:
        r = results[h["sid"]]
        errors = []
        for b in r["blocks"]:
            if b["item"]["k"] == "error":
                errors.append(os.path.normpath(C.text(b["item"]["path"]["p"])) if b["item"].get("path") else None)
            elif b["item"]["k"] in ("panic", "runaway"):
                v.disagree({"t": "DISAGREE", "what": "walk_" + b["item"]["k"], "sid": h["sid"], "scenario": h}, "%s: %s" % (h["desc"], b["item"]))
        # expected faults: those in the part of the tree that no combinator discards as a tree and, for a glob
        # walk, that the glob does not prune: taken from the validated trace (positions yielded as directories
        # and not tree-discarded are read)
        exp = []
        read_dirs = set()
        discarded = set()
        for y in yielded.get(h["sid"], []):
            if y["err"] == "none" and y["isdir"]:
                if "tree" in y["verdicts"] or y["gout"] == "T":
                    discarded.add(y["text"])
                else:
                    read_dirs.add(y["text"])
        link_to_locked = any(nd["kind"] == "link" and nd["target"] and not W.node_by_id(h)[nd["target"]]["readable"] for nd in h["nodes"]) and h["follow"]
        if None in errors:
            v.disagree({"t": "DISAGREE", "what": "error_item_names_no_path", "sid": h["sid"], "sig": {"followed_link_to_unreadable_directory": link_to_locked}, "scenario": h},
                       "%s: an error item has no path" % h.get("desc", "model scenario %s" % h["sid"]))
            errors = [e for e in errors if e is not None]
            unnamed = True
        else:
            unnamed = False
        if h["origin"] == "model" or h.get("trace_only"):
            continue   # the model scenarios are judged by trace validation (Final: one error per fault, in place)
        start_text = next(iter(reachable(h)))
        for t, info in reachable(h).items():
            parent = t.rsplit("/", 1)[0] if t != start_text else None
            if parent is not None and parent not in read_dirs:
                continue
            if unnamed and info.get("locked") and W.node_by_id(h)[info["pos"][-1]]["kind"] == "link":
                continue   # reported by the error item without a path
            if info["kind"].startswith("err"):
                exp.append(t)
            elif info.get("locked") and t in read_dirs:
                exp.append(t)
        n_oracle += 1
        if sorted(errors, key=str) != sorted(exp):
            v.disagree({"t": "DISAGREE", "what": "error_items_differ_from_faults", "sid": h["sid"], "scenario": h},
                       "%s: error items for %s, faults at %s" % (h["desc"], errors, exp))
    samples = []
    for h in rnd.sample([h for h in scenarios if h["origin"] == "library"], 4):
        r = results[h["sid"]]
        samples.append({"scenario": h["desc"], "items": [("error " + (os.path.normpath(C.text(b["item"]["path"]["p"])) if b["item"].get("path") else "?")) if b["item"]["k"] == "error" else os.path.normpath(C.text(b["item"]["facts"]["path"]["p"])) for b in r["blocks"] if b["item"]["k"] in ("entry", "error")][:12]})
    rc = v.finish()
    C.write_evidence("C20", tier, "fault_enumeration", {
        "evaluations": len(scenarios), "distinct_nontrivial": sum(1 for h in scenarios if any(not nd["readable"] or nd["kind"] == "link" for nd in h["nodes"])),
        "rule": "faults = unreadable directories (chmod 000, walks run as nobody through setpriv so that the fault is real), dangling links and links that re-enter an ancestor; placements: every combination on every tree up to %d nodes in the model (all sibling orders, one filter layer), %d of those scenarios (seeded sample) executed for real, plus a library: first / middle / last child, nested, several at once, the walked directory itself, x both link behaviours x 5 combinator stacks x path and glob walks; every trace validated against Walk.tla (one error item per fault, in place, bypassing the layers; the rest as in the fault-free walk); non-trivial = the tree has a fault" % (n, count),
        "samples": samples,
        "states": sum(st["distinct"] for _, st in mc) + tstats["distinct"], "transitions": sum(st["generated"] for _, st in mc) + tstats["generated"],
        "traces_validated_against_impl": ntraces, "oracle_comparisons": n_oracle,
        "known_findings_hit": sorted(v.findings),
    }, time.time() - t0, len(v.violations), WALK_TRUST + ["permission faults are produced by chmod 000 and an unprivileged effective user (setpriv --reuid=65534)"])
    return rc


def ancestors_of(h, nid):
    byid = W.node_by_id(h)
    chain = []
    while nid:
        chain.append(nid)
        nid = byid[nid]["parent"]
    return list(reversed(chain))


CHECKS["C20"] = check_C20
