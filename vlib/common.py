"""Shared plumbing for bin/verify: paths, hashing, caching, running cargo / TLC / wv, evidence,
known findings, exit codes.

Exit codes of a check: 0 = property held on everything explored (known findings are printed as
KNOWN-FINDING lines), 1 = violation (a `VIOLATION property=<id> replay=<path>` line is printed),
2 = tool error or timeout (never a verdict)."""
import hashlib
import json
import os
import re
import shutil
import subprocess
import sys
import tempfile
import time

VERIF = os.path.dirname(os.path.dirname(os.path.abspath(__file__)))
# the tree under test: /repo's working tree.  VERIF_REPO names a scratch copy instead (used only by bin/seedtest
# to try seeded changes while /repo itself stays untouched, e.g. during a long run against /repo)
REPO = os.environ.get("VERIF_REPO", "/repo").rstrip("/")
ALT = REPO != "/repo"
SPEC = os.path.join(VERIF, "spec")
HARNESS = os.path.join(VERIF, "harness")
CACHE = os.path.join(VERIF, ".cache")
# runs against a scratch tree (seeded-change testing) leave the evidence of the real tree alone
EVIDENCE = os.path.join(VERIF, "evidence") if not ALT else os.path.join(CACHE, "alt-evidence")
REPLAYS = os.path.join(VERIF, "replays") if not ALT else os.path.join(CACHE, "alt-replays")
TARGET = os.path.join(HARNESS, "target" if not ALT else "target-alt")
WV = os.path.join(TARGET, "release", "wv")
WORKERS = int(os.environ.get("VERIF_WORKERS", "8"))
SEED = int(os.environ.get("VERIF_SEED", "1"))


class ToolError(Exception):
    pass


def log(*a):
    print(*a, file=sys.stderr, flush=True)


def sha_files(paths):
    h = hashlib.sha256()
    for p in sorted(paths):
        h.update(p.encode())
        try:
            with open(p, "rb") as f:
                h.update(f.read())
        except OSError:
            h.update(b"<missing>")
    return h.hexdigest()[:16]


def walk_files(root, exts=None, skip=("target", ".git")):
    out = []
    for d, ds, fs in os.walk(root):
        ds[:] = [x for x in ds if x not in skip]
        for f in fs:
            if exts is None or os.path.splitext(f)[1] in exts:
                out.append(os.path.join(d, f))
    return out


_hash_cache = {}


def repo_hash():
    if "repo" not in _hash_cache:
        files = walk_files(os.path.join(REPO, "src")) + [os.path.join(REPO, "Cargo.toml"), os.path.join(REPO, "Cargo.lock")]
        _hash_cache["repo"] = sha_files(files)
    return _hash_cache["repo"]


def spec_hash():
    if "spec" not in _hash_cache:
        _hash_cache["spec"] = sha_files(walk_files(SPEC, {".tla", ".cfg"}))
    return _hash_cache["spec"]


def module_hash(module, *cfgs):
    """hash of a TLA+ module, the modules it extends / instantiates (transitively, within spec/) and the given
    config files: the cache key of whatever TLC generates from it (an edit of an unrelated module keeps it)"""
    key = "mod:" + module + ":" + ",".join(cfgs)
    if key not in _hash_cache:
        seen, todo = set(), [module]
        while todo:
            m = todo.pop()
            path = os.path.join(SPEC, m + ".tla")
            if m in seen or not os.path.exists(path):
                continue
            seen.add(m)
            with open(path) as f:
                text = f.read()
            for line in re.findall(r"^\s*EXTENDS\s+(.*)$", text, re.M):
                todo += [x.strip() for x in line.split(",")]
            todo += re.findall(r"INSTANCE\s+(\w+)", text)
        files = [os.path.join(SPEC, m + ".tla") for m in seen] + [os.path.join(SPEC, c) for c in cfgs]
        _hash_cache[key] = sha_files(files)
    return _hash_cache[key]


def harness_hash():
    if "harness" not in _hash_cache:
        files = walk_files(os.path.join(HARNESS, "src")) + [os.path.join(HARNESS, "Cargo.toml")]
        _hash_cache["harness"] = sha_files(files)
    return _hash_cache["harness"]


def cache_dir(*parts):
    d = os.path.join(CACHE, *parts)
    os.makedirs(d, exist_ok=True)
    return d


def prune_cache(keep=6):
    """keep the cache bounded: only the most recently used observation directories survive"""
    for sub, n in (("obs", keep), ("gen", 12)):
        base = os.path.join(CACHE, sub)
        if not os.path.isdir(base):
            continue
        ds = sorted((os.path.join(base, d) for d in os.listdir(base)), key=os.path.getmtime, reverse=True)
        for d in ds[n:]:
            shutil.rmtree(d, ignore_errors=True)


_built = False


def build_harness():
    """(re)build the harness against /repo's current working tree, hooks enabled"""
    global _built
    if _built:
        return
    env = dict(os.environ)
    env["CARGO_NET_OFFLINE"] = "true"
    cmd = ["cargo", "build", "--release", "--offline"]
    if ALT:
        cmd += ["--config", 'paths=["%s"]' % REPO, "--target-dir", TARGET]
    t0 = time.time()
    with open(os.path.join(cache_dir(), "cargo.lock"), "w") as lock:
        import fcntl
        fcntl.flock(lock, fcntl.LOCK_EX)
        p = subprocess.run(cmd, cwd=HARNESS, env=env, capture_output=True, text=True)
    if p.returncode != 0:
        log(p.stderr[-4000:])
        raise ToolError("cargo build of the harness failed (does /repo still compile with --cfg wax_verif?)")
    log("[build] harness up to date (%.1fs)" % (time.time() - t0))
    _built = True


def rule_hook_present():
    try:
        with open(os.path.join(REPO, "src", "verif.rs")) as f:
            return "RuleVisit" in f.read()
    except OSError:
        return False


def scratch():
    return tempfile.mkdtemp(prefix="wv-", dir=cache_dir("tmp"))


TLC_JAVA = ["java", "-XX:+UseParallelGC", "-Xss64m", "-cp",
            "/opt/veriftools/tla/tla2tools.jar:/opt/veriftools/tla/CommunityModules-deps.jar", "tlc2.TLC"]


# suffix of files being written (renamed when complete): unique per process, so that two checks running at once
# never write the same temporary file
TMP = ".tmp%d" % os.getpid()
SHARD = int(os.environ.get("VERIF_SHARD", "100000"))
SHARD_BYTES = 64 << 20


def tlc(module, cfg, env=None, workers=None, timeout=900, extra=(), java_opts=()):
    """run TLC; returns (stdout text, stats dict). Raises ToolError on timeout or TLC failure.
    A large record file (env OBS / TRACE / TRACES, or REL when present: its records refer to OBS by id) is
    split into shards of SHARD records that are checked one after the other: records are independent (every
    specification picks one record in Init), so the union of the runs is the run over the whole file; the
    timeout applies per shard."""
    env = dict(env or {})
    key = "REL" if "REL" in env else next((k for k in ("OBS", "TRACE", "TRACES") if k in env), None)
    if key and env[key].endswith((".ndjson", ".rel")) and os.path.getsize(env[key]) > 1 << 20:
        with open(env[key]) as f:
            lines = f.readlines()
        # shards of at most SHARD records and about SHARD_BYTES bytes
        size = os.path.getsize(env[key])
        per = SHARD if size <= SHARD_BYTES else max(1, min(SHARD, int(len(lines) * SHARD_BYTES / size)))
        if len(lines) > per * 1.3:
            outs = []
            total = {"wall_s": 0.0, "generated": 0, "distinct": 0, "depth": 0, "ok": True, "rc": 0, "shards": 0}
            for i in range(0, len(lines), per):
                part = os.path.join(cache_dir("tmp"), "shard-%d-%d.ndjson" % (os.getpid(), i // per))
                with open(part, "w") as f:
                    f.writelines(lines[i:i + per])
                try:
                    out, st = _tlc_once(module, cfg, dict(env, **{key: part}), workers, timeout, extra, java_opts)
                finally:
                    os.remove(part)
                outs.append(out)
                total["shards"] += 1
                for k in ("wall_s", "generated", "distinct"):
                    total[k] += st[k]
                total["depth"] = max(total["depth"], st["depth"])
                if not st["ok"]:
                    total["ok"], total["rc"], total["tail"] = False, st["rc"], st.get("tail", "")
                    break
            log("[tlc] %s: %d records in %d shards (%.0fs)" % (cfg, len(lines), total["shards"], total["wall_s"]))
            return "\n".join(outs), total
    return _tlc_once(module, cfg, env, workers, timeout, extra, java_opts)


def _tlc_once(module, cfg, env, workers, timeout, extra, java_opts):
    meta = scratch()
    e = dict(os.environ)
    e.update(env or {})
    cmd = TLC_JAVA[:1] + list(java_opts) + TLC_JAVA[1:] + [
        "-workers", str(workers or WORKERS), "-metadir", meta, "-cleanup", "-noGenerateSpecTE",
        "-config", cfg] + list(extra) + [module]
    t0 = time.time()
    try:
        p = subprocess.run(cmd, cwd=SPEC, env=e, capture_output=True, text=True, timeout=timeout)
    except subprocess.TimeoutExpired:
        shutil.rmtree(meta, ignore_errors=True)
        raise ToolError("TLC timed out after %ss on %s" % (timeout, cfg))
    finally:
        shutil.rmtree(meta, ignore_errors=True)
    out = p.stdout
    stats = {"wall_s": time.time() - t0, "generated": 0, "distinct": 0, "depth": 0}
    m = re.search(r"(\d+) states generated, (\d+) distinct states found", out)
    if m:
        stats["generated"], stats["distinct"] = int(m.group(1)), int(m.group(2))
    m = re.search(r"depth of the complete state graph search is (\d+)", out)
    if m:
        stats["depth"] = int(m.group(1))
    ok = "Model checking completed. No error has been found." in out
    stats["ok"] = ok
    stats["rc"] = p.returncode
    if not ok:
        stats["tail"] = out[-6000:]
    return out, stats


def tlc_records(out):
    """JSON records printed by the specification through PrintT(ToJson(..))"""
    recs = []
    for line in out.splitlines():
        if line.startswith('"{') and line.endswith('}"'):
            try:
                recs.append(json.loads(json.loads(line)))
            except ValueError:
                pass
    return recs


def text(cps):
    return "".join(chr(c) for c in cps)


def cps(s):
    return [ord(c) for c in s]


def run_wv(args, stdin_path=None, stdout_path=None, timeout=1800, input_text=None):
    build_harness()
    fin = open(stdin_path) if stdin_path else None
    fout = open(stdout_path, "w") if stdout_path else subprocess.PIPE
    try:
        p = subprocess.run([WV] + args, stdin=fin, input=input_text if fin is None else None, stdout=fout,
                           stderr=subprocess.PIPE, text=True, timeout=timeout)
    except subprocess.TimeoutExpired:
        raise ToolError("wv %s timed out" % args[0])
    finally:
        if fin:
            fin.close()
        if stdout_path:
            fout.close()
    if p.returncode != 0:
        log(p.stderr[-3000:])
        raise ToolError("wv %s failed with exit code %s" % (args[0], p.returncode))
    return p.stdout if not stdout_path else None


# ---------------------------------------------------------------- known findings

def load_known():
    with open(os.path.join(VERIF, "known_findings.json")) as f:
        data = json.load(f)
    return [k for k in data["findings"] if "id" in k], data.get("fixed", [])


def _get(rec, dotted):
    cur = rec
    for part in dotted.split("."):
        if isinstance(cur, dict) and part in cur:
            cur = cur[part]
        else:
            return None
    return cur


def match_known(known, prop, rec):
    """the first listed finding of this property whose key matches the disagreement record"""
    for k in known:
        if prop not in k["property"].split(","):
            continue
        alts = k["match"] if isinstance(k["match"], list) else [k["match"]]
        for m in alts:
            if all(_get(rec, key) == val for key, val in m.items()):
                return k
    return None


# ---------------------------------------------------------------- pinned behaviour of known findings
# A known finding is keyed by a signature (known_findings.json).  A signature describes a REGION of inputs; inside
# the region a change of the code could hide behind the finding.  pinned/<prop>.<tier>.pin closes that: for every
# input on which the pinned tree showed a known finding it records a fingerprint of what the pinned tree was
# OBSERVED to do on that input (the whole observation record of the real code: outcome, queries, partition,
# automata of the compiled programs ...).  At check time a disagreement is attributed to a known finding only if the
# input is not in the file or the code still does on it exactly what was recorded; otherwise it is a violation.  The
# files are written by `bin/verify pins` (VERIF_PIN_WRITE=1), committed, and never written by a check.
PINS = os.path.join(VERIF, "pinned")
PIN_BYTES = 5


def _h(text):
    import hashlib
    return hashlib.sha256(text.encode("utf-8", "surrogatepass")).digest()[:PIN_BYTES]


def pin_of(o, extra=""):
    """(key, fingerprint) of an observation record of the real code: the input, and everything observed on it"""
    if o is None:
        return None
    inp = {k: o.get(k) for k in ("kind", "e", "members", "s", "mode") if k in o}
    obs = {k: v for k, v in o.items() if k not in ("id", "fam", "sigma")}
    return (json.dumps(inp, sort_keys=True, separators=(",", ":")) + "|" + json.dumps(o.get("sigma"), separators=(",", ":")) + "|" + extra,
            json.dumps(obs, sort_keys=True, separators=(",", ":")))


def load_pins(prop):
    tier = os.environ.get("VERIF_CURRENT_TIER", "quick")
    path = os.path.join(PINS, "%s.%s.pin" % (prop, tier))
    pins = {}
    if os.path.exists(path):
        with open(path, "rb") as f:
            data = f.read()
        n = 2 * PIN_BYTES
        for i in range(0, len(data) - n + 1, n):
            pins[data[i:i + PIN_BYTES]] = data[i + PIN_BYTES:i + n]
    return pins


class Verdict:
    """collects violations and known findings of one check and produces exit code + lines"""

    def __init__(self, prop):
        self.prop = prop
        self.known, _ = load_known()
        self.violations = []
        self.findings = {}
        self.pins = load_pins(prop)
        self.pin_write = os.environ.get("VERIF_PIN_WRITE") == "1" and not ALT
        self.new_pins = {}
        self.unpinned = 0

    def disagree(self, rec, describe, pin=None):
        k = match_known(self.known, self.prop, rec)
        if k and pin is not None:
            hk, hf = _h(k["id"] + "|" + pin[0]), _h(pin[1])
            if self.pin_write:
                self.new_pins[hk] = hf
            elif hk in self.pins and self.pins[hk] != hf:
                # inside the region of a known finding, but the code no longer does what the pinned tree did here
                self.unpinned += 1
                self.violations.append((rec, describe + "  [matches the signature of %s, but the code under test behaves differently on this input than the pinned tree did when the finding was recorded]" % k["id"]))
                return
        if k:
            f = self.findings.setdefault(k["id"], {"k": k, "n": 0, "sample": describe})
            f["n"] += 1
        else:
            self.violations.append((rec, describe))

    def write_pins(self):
        if not self.pin_write:
            return
        os.makedirs(PINS, exist_ok=True)
        tier = os.environ.get("VERIF_CURRENT_TIER", "quick")
        path = os.path.join(PINS, "%s.%s.pin" % (self.prop, tier))
        with open(path + TMP, "wb") as f:
            for hk in sorted(self.new_pins):
                f.write(hk + self.new_pins[hk])
        os.replace(path + TMP, path)
        log("[pins] %s: %d inputs with a known finding pinned" % (self.prop, len(self.new_pins)))

    def finish(self):
        self.write_pins()
        for fid in sorted(self.findings):
            f = self.findings[fid]
            print("KNOWN-FINDING: property=%s %s %s (%d records, e.g. %s)" % (
                self.prop, fid, f["k"]["what"], f["n"], f["sample"]))
        if self.violations:
            os.makedirs(REPLAYS, exist_ok=True)
            path = os.path.join(REPLAYS, "%s.json" % self.prop)
            with open(path, "w") as f:
                json.dump({"property": self.prop, "repo_hash": repo_hash(), "tier": os.environ.get("VERIF_CURRENT_TIER", "quick"),
                           "violations": [{"record": r, "what": d} for r, d in self.violations[:200]]}, f, indent=1)
            for _, d in self.violations[:12]:
                print("  violation: %s" % d)
            print("VIOLATION property=%s replay=%s" % (self.prop, path))
            return 1
        return 0


def write_evidence(prop, tier, level, coverage, wall_s, violations, assumptions):
    os.makedirs(EVIDENCE, exist_ok=True)
    ev = {"property_id": prop, "tier": tier, "seed": SEED, "level": level, "coverage": coverage,
          "assumptions": assumptions, "wall_s": round(wall_s, 2), "violations": violations}
    with open(os.path.join(EVIDENCE, "%s.json" % prop), "w") as f:
        json.dump(ev, f, indent=1, ensure_ascii=False)
        f.write("\n")
