"""Walker checks: scenarios, execution on a real file system through `wv walk`, conversion of hook
events into Walk actions, trace validation with TLC (spec/WalkTrace.tla), end-to-end oracles."""
import collections
import json
import os
import random
import shutil
import subprocess
import time

from . import common as C
from . import lang as L

VMAP = {"-": "keep", "N": "file", "T": "tree"}


# ------------------------------------------------------------------ scenarios from the model

def model_scenarios(consts, tag):
    """initial states of WalkMC (every tree, every verdict table ...) printed by TLC"""
    d = C.cache_dir("gen", C.module_hash("WalkMC"))
    os.utime(d)
    path = os.path.join(d, "walkmc-%s.json" % tag)
    if os.path.exists(path):
        with open(path) as f:
            return json.load(f)
    cfg = os.path.join(C.SPEC, "WalkMC_emit_%s.cfg" % tag)
    with open(cfg, "w") as f:
        f.write("CONSTANTS\n  Dev = {}\n  Scenarios = {}\n")
        for k, v in consts.items():
            f.write("  %s = %s\n" % (k, v))
        f.write("INIT MCInit\nNEXT Next\nCONSTRAINT OnlyInitial\nINVARIANT EmitScenario\nCHECK_DEADLOCK FALSE\n")
    try:
        out, stats = C.tlc("WalkMC.tla", os.path.basename(cfg), timeout=1200)
    finally:
        os.remove(cfg)
    if not stats["ok"]:
        C.log(stats.get("tail", ""))
        raise C.ToolError("WalkMC scenario export failed")
    scs = [r["sc"] for r in C.tlc_records(out) if r.get("t") == "SCENARIO"]
    scs.sort(key=lambda s: json.dumps(s, sort_keys=True))
    with open(path + C.TMP, "w") as f:
        json.dump(scs, f)
    os.replace(path + C.TMP, path)
    return scs


def parent_list(sc):
    """TLC prints the parent function (domain 2..n) as an object or a list"""
    p = sc["parent"]
    n = sc["n"]
    if isinstance(p, dict):
        return [0] + [p[str(i)] for i in range(2, n + 1)]
    return [0] + list(p)


NAMES = ["root", "n2", "n3", "n4", "n5", "n6", "n7", "n8"]


def from_model(sc, sid, names=NAMES):
    """a WalkMC scenario record as a harness scenario with filter_entry layers"""
    n = sc["n"]
    parent = parent_list(sc)
    nodes = []
    for i in range(1, n + 1):
        nodes.append({"id": i, "parent": parent[i - 1], "name": C.cps(names[i - 1]), "kind": sc["kind"][i - 1],
                      "target": sc["target"][i - 1], "readable": sc["readable"][i - 1]})
    h = {"sid": sid, "nodes": nodes, "follow": sc["follow"], "min": sc["min"] if sc["min"] > 0 else -1,
         "max": sc["max"] if sc["max"] < 100 else -1, "layers": [], "origin": "model"}
    # node verdicts become path verdicts: every position that ends in the node
    paths = node_paths(h)
    for lv in sc["layers"]:
        table = {}
        for p, pos in paths.items():
            v = lv[pos[-1] - 1]
            if v != "keep":
                table[p] = v
        h["layers"].append({"kind": "filter", "verdicts": table})
    return h


def children_of(h):
    ch = collections.defaultdict(list)
    for nd in h["nodes"]:
        ch[nd["parent"]].append(nd)
    return ch


def node_by_id(h):
    return {nd["id"]: nd for nd in h["nodes"]}


def resolve(h, nid):
    nd = node_by_id(h)[nid]
    if nd["kind"] == "link" and h["follow"]:
        return nd["target"]
    return nid


def node_paths(h, max_len=12):
    """every position (sequence of node ids from the walked node) with its path text relative to the
    scratch directory; a followed link continues with the children of its target; loops are cut"""
    byid = node_by_id(h)
    ch = children_of(h)
    start = h.get("walk_from", 1)
    # path text of the walked node itself: its real location
    def real_path(nid):
        parts = []
        while nid:
            parts.append(C.text(byid[nid]["name"]))
            nid = byid[nid]["parent"]
        return "/".join(reversed(parts))
    out = {}

    def rec(pos, text):
        out[text] = list(pos)
        if len(pos) >= max_len:
            return
        nid = pos[-1]
        nd = byid[nid]
        d = resolve(h, nid)
        if d == 0 or byid[d]["kind"] != "dir":
            return
        if nd["kind"] == "link" and not h["follow"]:
            return
        if nd["kind"] == "link" and any(resolve(h, p) == d for p in pos[:-1]):
            return  # loop
        for c in ch[d]:
            rec(pos + [c["id"]], text + "/" + C.text(c["name"]))
    rec([start], real_path(start))
    return out


# ------------------------------------------------------------------ running the real walker

NOBODY = ["setpriv", "--reuid=65534", "--regid=65534", "--clear-groups"]


def run_walks(scenarios, tag, as_nobody=False):
    """returns {sid: result}"""
    C.build_harness()
    root = os.path.join(C.cache_dir("tmp"), "walk-%s-%d" % (tag, os.getpid()))
    shutil.rmtree(root, ignore_errors=True)
    os.makedirs(root)
    os.chmod(root, 0o755)
    if as_nobody and subprocess.run(NOBODY + ["test", "-x", root], capture_output=True).returncode != 0:
        # the checkout lives beneath a directory that the unprivileged user cannot traverse (/root/...): the trees
        # of this run are built in a scratch directory under the system's temporary directory and removed afterwards
        shutil.rmtree(root, ignore_errors=True)
        import tempfile
        root = tempfile.mkdtemp(prefix="wv-walk-%s-" % tag)
        os.chmod(root, 0o755)
        if subprocess.run(NOBODY + ["test", "-x", root], capture_output=True).returncode != 0:
            shutil.rmtree(root, ignore_errors=True)
            raise C.ToolError("no scratch directory that the unprivileged user can reach")
    spath = os.path.join(root, "scenarios.ndjson")
    L.write_ndjson(spath, scenarios)
    os.chmod(spath, 0o644)
    try:
        p = subprocess.run([C.WV, "walk", "--root", root, "--build"], stdin=open(spath), capture_output=True, text=True, timeout=1800)
        if p.returncode != 0 or p.stdout.strip():
            C.log(p.stderr[-2000:], p.stdout[-2000:])
            raise C.ToolError("building scenario trees failed")
        cmd = [C.WV, "walk", "--root", root, "--run"]
        if as_nobody:
            cmd = NOBODY + cmd
        p = subprocess.run(cmd, stdin=open(spath), capture_output=True, text=True, timeout=3000)
        if p.returncode != 0:
            C.log(p.stderr[-3000:])
            raise C.ToolError("wv walk failed (exit %s)" % p.returncode)
        results = {}
        for line in p.stdout.splitlines():
            r = json.loads(line)
            results[r["sid"]] = r
        return results
    finally:
        subprocess.run([C.WV, "walk", "--root", root, "--clean"], stdin=open(spath), capture_output=True, text=True)
        shutil.rmtree(root, ignore_errors=True)


# ------------------------------------------------------------------ events -> Walk actions

class TraceProblem(Exception):
    pass


def strip_sid(text, sid):
    pre = "s%s/" % sid
    if text == "s%s" % sid:
        return ""
    if not text.startswith(pre):
        raise TraceProblem("path %r outside the scenario directory" % text)
    return text[len(pre):]


def convert(h, r, pivot=0):
    """hook events of one scenario -> trace record for WalkTrace.tla"""
    paths = node_paths(dict(h, walk_from=h.get("anchor", h.get("walk_from", 1))))
    has_glob = h.get("glob") is not None
    acts = []
    comp, match = [], []
    layers = [[] for _ in range(7)]
    yielded = []
    for b in r["blocks"]:
        evs = b["events"]
        idx = [i for i, e in enumerate(evs) if e["ev"] in ("yield", "end")]
        for k, i in enumerate(idx):
            e = evs[i]
            rest = evs[i + 1: idx[k + 1] if k + 1 < len(idx) else len(evs)]
            if e["ev"] == "end":
                acts.append({"k": "end"})
                continue
            if e["path"] is None and e["err"] != "none":
                text, pos = None, []      # an error item that names no path: TLC infers the position
            else:
                if e["path"] is None or not e["path"]["in"]:
                    raise TraceProblem("yield without a path inside the scenario")
                text = os.path.normpath(C.text(e["path"]["p"]))
                if text not in paths:
                    raise TraceProblem("yielded path %r is not a position of the scenario" % text)
                pos = paths[text]
            last = (k == len(idx) - 1)
            emitted = last and b["item"]["k"] in ("entry", "error")
            acts.append({"k": "yield", "pos": pos, "isdir": e["is_dir"], "err": e["err"]})
            yielded.append({"pos": pos, "text": text, "err": e["err"], "isdir": e["is_dir"], "depth": e["depth"], "emitted": emitted,
                            "verdicts": [], "ins": [], "gout": None})
            y = yielded[-1]
            if e["err"] != "none":
                if rest:
                    raise TraceProblem("layer events for an error item")
                acts.append({"k": "emit", "emitted": emitted})
                continue
            j = 0
            if has_glob:
                called, pop = False, 0
                if j < len(rest) and rest[j]["ev"] == "cancel":
                    called, pop = True, 1 if rest[j]["effective"] else 0
                    j += 1
                if j >= len(rest) or rest[j]["ev"] != "in":
                    raise TraceProblem("no layer input after the glob layer")
                gout = rest[j]["sep"]
                acts.append({"k": "glob", "out": gout, "called": called, "pop": pop})
                y["gout"] = gout
                comp.append([pos, "prune" if gout == "T" else "check"])
                match.append([pos, gout == "F"])
            li = 0
            pending = None
            while j < len(rest):
                if rest[j]["ev"] != "in" or j + 1 >= len(rest) or rest[j + 1]["ev"] != "verdict":
                    raise TraceProblem("unexpected event order %s" % [x["ev"] for x in rest])
                li += 1
                a = {"k": "layer", "i": li, "in": rest[j]["sep"], "v": VMAP[rest[j + 1]["v"]], "out": "?", "called": False, "pop": 0}
                if pending is not None:
                    pending["out"] = a["in"]
                j += 2
                if j < len(rest) and rest[j]["ev"] == "cancel":
                    a["called"], a["pop"] = True, 1 if rest[j]["effective"] else 0
                    j += 1
                acts.append(a)
                pending = a
                y["verdicts"].append(a["v"])
                y["ins"].append(a["in"])
                layers[li - 1].append([pos, a["v"]])
            if li != 7:
                raise TraceProblem("%d layer events instead of 7" % li)
            if emitted and pending is not None:
                pending["out"] = "F"
            acts.append({"k": "emit", "emitted": emitted})
    byid = node_by_id(h)
    n = len(h["nodes"])
    ids = [nd["id"] for nd in h["nodes"]]
    assert ids == list(range(1, n + 1))
    wmin = h["min"] if h["min"] > 0 else 0
    wmax = h["max"] if h["max"] >= 0 else 100
    sc = {"root": h.get("anchor", h.get("walk_from", 1)), "n": n,
          "parent": [byid[i]["parent"] for i in ids], "kind": [byid[i]["kind"] for i in ids],
          "target": [byid[i]["target"] for i in ids], "readable": [byid[i]["readable"] for i in ids],
          # the bounds as configured; WalkTrace.tla translates them by the number of components of the prefix
          "follow": h["follow"], "cmin": wmin, "cmax": wmax, "prefix": list(h.get("_prefix_bytes", [])) if pivot else [],
          "glob": has_glob, "comp": comp, "match": match, "layers": layers}
    return {"sid": h["sid"], "sc": sc, "actions": acts}, yielded


def validate_traces(traces, tag):
    """TLC trace validation; returns (stats, accepted sids, {sid: longest prefix}, disagreement records)"""
    d = C.cache_dir("obs", "%s-%s" % (C.repo_hash(), C.harness_hash()))
    path = os.path.join(d, "walktraces-%s-%d.ndjson" % (tag, os.getpid()))
    L.write_ndjson(path, traces)
    try:
        out, stats = C.tlc("WalkTrace.tla", "WalkTrace.cfg", env={"TRACES": path}, timeout=3000, java_opts=["-Xmx12g"])
    finally:
        os.remove(path)
    if not stats["ok"]:
        C.log(stats.get("tail", ""))
        raise C.ToolError("TLC did not complete on WalkTrace")
    accepted = set()
    at = collections.Counter()
    dis = []
    for r in C.tlc_records(out):
        if r["t"] == "ACCEPT":
            accepted.add(r["sid"])
        elif r["t"] == "AT":
            at[r["sid"]] = max(at[r["sid"]], r["l"])
        elif r["t"] == "DISAGREE":
            dis.append(r)
    return stats, accepted, at, dis


def describe_action(a):
    if a["k"] == "yield":
        return "yield %s%s" % (a["pos"], "" if a["err"] == "none" else " error " + a["err"])
    if a["k"] == "layer":
        return "layer %d: %s --%s--> %s%s" % (a["i"], a["in"], a["v"], a["out"], " (cancel)" if a["called"] else "")
    if a["k"] == "glob":
        return "glob layer -> %s%s" % (a["out"], " (cancel)" if a["called"] else "")
    return a["k"] + (" emitted" if a.get("emitted") else "")


def run_and_validate(prop, scenarios, tag, v, as_nobody=False, pivots=None):
    """executes scenarios, validates their traces; feeds rejections into the verdict v.
    returns (results, yielded-by-sid, stats, n_traces)"""
    results = run_walks(scenarios, tag, as_nobody)
    traces = []
    yielded = {}
    by_sid = {h["sid"]: h for h in scenarios}
    for h in scenarios:
        r = results.get(h["sid"])
        if r is None or "error" in r:
            raise C.ToolError("scenario %s did not run: %s" % (h["sid"], r and r.get("error")))
        if h.get("skip_trace"):
            continue
        try:
            t, y = convert(h, r, (pivots or {}).get(h["sid"], 0))
        except TraceProblem as e:
            v.disagree({"t": "DISAGREE", "what": "trace_not_wellformed", "sid": h["sid"]},
                       "scenario %s (%s): %s" % (h["sid"], h.get("desc", h.get("origin")), e))
            continue
        traces.append(t)
        yielded[h["sid"]] = y
    stats, accepted, at, dis = validate_traces(traces, tag)
    for t in traces:
        if t["sid"] not in accepted:
            l = at[t["sid"]]
            nxt = t["actions"][l - 1] if 0 < l <= len(t["actions"]) else None
            prev = [describe_action(a) for a in t["actions"][max(0, l - 4): l - 1]]
            v.disagree({"t": "DISAGREE", "what": "trace_rejected", "sid": t["sid"], "at": l, "scenario": by_sid[t["sid"]]},
                       "scenario %s (%s): the recorded walk is not a behaviour of Walk.tla; matched %d of %d actions, then %s (after %s)" % (
                           t["sid"], by_sid[t["sid"]].get("desc", by_sid[t["sid"]].get("origin")), l - 1, len(t["actions"]),
                           describe_action(nxt) if nxt else "nothing", prev))
    for r in dis:
        r["scenario"] = by_sid[r["sid"]]
        v.disagree(r, "scenario %s (%s): invariant %s of Walk.tla fails on the recorded walk at action %d" % (
            r["sid"], by_sid[r["sid"]].get("desc", by_sid[r["sid"]].get("origin")), r["what"], r["l"]))
    return results, yielded, stats, len(traces)


# ------------------------------------------------------------------ exhaustive model checking

def model_check(cfg_name, consts, invariants, properties=(), constraint=None, timeout=3000, spec=None):
    cfg = os.path.join(C.SPEC, "WalkMC_run_%s_%d.cfg" % (cfg_name, os.getpid()))
    with open(cfg, "w") as f:
        f.write("CONSTANTS\n  Dev = {}\n  Scenarios = {}\n")
        for k, val in consts.items():
            f.write("  %s = %s\n" % (k, val))
        if spec:
            f.write("SPECIFICATION %s\n" % spec)
        else:
            f.write("INIT MCInit\nNEXT Next\n")
        if constraint:
            f.write("CONSTRAINT %s\n" % constraint)
        for i in invariants:
            f.write("INVARIANT %s\n" % i)
        for p in properties:
            f.write("PROPERTY %s\n" % p)
        f.write("CHECK_DEADLOCK FALSE\n")
    try:
        out, stats = C.tlc("WalkMC.tla", os.path.basename(cfg), timeout=timeout, workers=max(C.WORKERS, 8), java_opts=["-Xmx14g"])
    finally:
        os.remove(cfg)
    if "is violated" in out or "Error:" in out and not stats["ok"]:
        stats["violation"] = out[out.find("Error:"):][:3000]
    return stats


def mc_consts(n, layers, links=False, faults=False, glob=False, depths=False):
    b = lambda x: "TRUE" if x else "FALSE"
    return {"MaxN": n, "NLayers": layers, "WithLinks": b(links), "WithFaults": b(faults), "WithGlob": b(glob), "WithDepths": b(depths)}


# ------------------------------------------------------------------ scenario library (real patterns)

def tree(spec, name="root"):
    """nested dict -> node list. value: dict = directory, None = file, ("link", "path/from/root" | None) = link,
    ("locked", dict) = unreadable directory"""
    nodes = []
    index = {}

    def add(parent, nm, val, path):
        nid = len(nodes) + 1
        kind, readable, sub = "file", True, None
        if isinstance(val, dict):
            kind, sub = "dir", val
        elif isinstance(val, tuple) and val[0] == "locked":
            kind, readable, sub = "dir", False, val[1]
        elif isinstance(val, tuple) and val[0] == "link":
            kind = "link"
        nodes.append({"id": nid, "parent": parent, "name": C.cps(nm), "kind": kind, "target": 0, "readable": readable,
                      "_link": val[1] if kind == "link" else None})
        index[path] = nid
        if sub is not None:
            for k in sorted(sub):
                add(nid, k, sub[k], path + "/" + k)
    add(0, name, spec, name)
    for nd in nodes:
        l = nd.pop("_link")
        if nd["kind"] == "link" and l is not None:
            nd["target"] = index[l]
    return nodes, index


TREES = {
    "plain": {"a": {"b": {"c.txt": None, "d": {}}, "x.txt": None}, "b": {"y.txt": None, "a": {"z.txt": None}}, ".h": {"k.txt": None},
              "é.txt": None, "a*": {"q.txt": None}},
    "deep": {"a": {"b": {"c": {"f": None, "g": None}, "g": None}, "f": None}, "b": {"c": {"h": None}}, "f": None},
    "small": {"a": {"f": None}, "b": None},
    "links": {"a": {"f": None, "up": ("link", "root"), "tob": ("link", "root/b")}, "b": {"g": None, "toa_f": ("link", "root/a/f")},
              "dangling": ("link", None), "lf": ("link", "root/b/g")},
    # names that are not valid UTF-8 (U+E080..U+E0FF stand for the raw bytes 0x80..0xFF, see harness os_name)
    # ... and names with a backslash, which is an ordinary character of a name on this platform
    "bytes": {"a": {"caf\ue0e9.txt": None, "x\ue0ff": {"g.txt": None}, "n\\d.txt": None, "p\\q": {"r.txt": None},
                    # ... and names with a new line
                    "l\nm.txt": None, "s\nt": {"u.txt": None, "b.txt": None}, "b.txt": None},
              "\ue080dir": {"f": None, "h.txt": None}, "f": None},
    # three levels of directories a, b with two-character files: the tree that the family walks of C02 use
    "ab3": {"a": {"a": {"a": None, "b": None, "ba": None}, "b": {"a": None, "b": None, "ba": None}, "ab": None},
            "b": {"a": {"a": None, "b": None, "ba": None}, "b": {"a": None, "b": None, "ba": None}, "ab": None}, "aa": None},
    "faults": {"a": {"f": None}, "locked": ("locked", {"s": None}), "z": {"deep": ("locked", {}), "g": None}, "dangling": ("link", None)},
}


def real_entries(h):
    """independent traversal of the scenario tree: {path text relative to scratch: info} for every position the
    link policy reaches (no depth bounds, no faults applied)"""
    return node_paths(h)


def rel_to(text, base_text):
    if text == base_text:
        return ""
    assert text.startswith(base_text + "/"), (text, base_text)
    return text[len(base_text) + 1:]


def matches(pairs):
    """real is_match for (pattern members, path) pairs through `wv replay`; pairs: list of (tuple of pattern texts, path)"""
    by = collections.OrderedDict()
    for pats, path in pairs:
        by.setdefault(tuple(pats), []).append(path)
    lines = []
    keys = list(by)
    for i, pats in enumerate(keys):
        rec = {"id": i, "paths": [C.cps(p) for p in by[pats]]}
        if len(pats) == 1:
            rec["e"] = C.cps(pats[0])
        else:
            rec["members"] = [C.cps(p) for p in pats]
        lines.append(json.dumps(rec, separators=(",", ":")))
    out = C.run_wv(["replay"], input_text="\n".join(lines) + "\n") if lines else ""
    res = {}
    for line in out.splitlines():
        r = json.loads(line)
        pats = keys[r["id"]]
        if not r["built"]:
            raise C.ToolError("pattern %r does not build" % (pats,))
        for path, x in zip(by[pats], r["rs"]):
            res[(pats, path)] = x["m"]
    return res


def glob_prefixes(globs):
    """std::path components of the invariant prefix of each glob text (real partition, see C08)"""
    cases = [{"id": i + 1, "kind": "glob", "fam": "walk", "e": C.cps(g), "sigma": [97, 47]} for i, g in enumerate(globs)]
    path = L.observe(cases, "part", "walkglobs")
    res = {}
    for o in L.read_ndjson(path):
        g = C.text(o["e"])
        if o["outcome"] != "ok":
            res[g] = None
        else:
            res[g] = [(c["k"], C.text(c["s"])) for c in o["part"]["comps"]]
            res[("post", g)] = C.text(o["part"]["post"]) if o["part"]["has_post"] else None
            res[("prefix", g)] = C.text(o["part"]["prefix"])
    return res


def locate(h, index_by_text, base_text, comps):
    """the node reached from the base by the native prefix components; None if it does not exist.
    Returns (text of the anchor relative to scratch, normalised?)"""
    parts = base_text.split("/")
    plain = True
    for k, s in comps:
        if k == "normal":
            parts.append(s)
        elif k == "parent":
            plain = False
            if parts:
                parts.pop()
        elif k == "cur":
            plain = False
        elif k == "root":
            return None, False
    return "/".join(parts), plain


def glob_scenarios(tier, first_sid, rnd):
    """glob walks over real trees: unprefixed, prefixed, rooted, ./.. prefixes; bases inside the tree; spellings"""
    out = []
    globs = ["**", "*", "a/**", "**/*.txt", "a/b/*", "*/x.txt", "{a,b}/**", "**/{b,.h}/**", "a/**/c.txt", "?", "a\\*/*", "é.txt",
             "(?i)A/**", "", "nonexistent/**", "a/x.txt", "a", "**/a/**", "<*/>*.txt", "a/b/c.txt", "**/b/*", "*/*", "b/a/z.txt",
             "[ab]/*.txt", ".h/*", "**/d", "a/b/d/**", "*.txt", "a/<b/:0,1>*"]
    deep_globs = ["a/**/{f,g,h}", "**/c/*", "a/b/**", "**/g", "{a,b}/c/*", "a/b/c/f", "**/b/**", "a/*/g", "*/c/**", "b/**/h"]
    link_globs = ["a/f*", "*/g", "b/*", "**/g", "a/*", "?/t*"]     # links to directories whose names a component rejects
    for tname, gl in (("plain", globs), ("deep", deep_globs), ("links", link_globs)):
        nodes, index = tree(TREES[tname])
        for g in gl:
            for base, spelling in (("root", "abs"), ("root", "trailing"), ("root", "dot")) if tier == "thorough" or g in ("**/*.txt", "a/**", "*") else (("root", "abs"),):
                out.append({"nodes": nodes, "follow": False, "min": -1, "max": -1, "glob": C.cps(g), "rooted": False,
                            "walk_from": index[base], "base": spelling, "layers": [], "tree": tname,
                            "desc": "glob %r over tree %s from %s (%s)" % (g, tname, base, spelling)})
            # rooted: the same glob behind the absolute path of the walked directory
            if g and (tier == "thorough" or rnd.random() < 0.4):
                out.append({"nodes": nodes, "follow": False, "min": -1, "max": -1, "glob": C.cps(g), "rooted": True,
                            "walk_from": index["root"], "base": "abs", "layers": [], "tree": tname,
                            "desc": "rooted glob <abs>/%s over tree %s" % (g, tname)})
        # rooted with a pattern as first component: the invariant prefix is the root alone, the walk starts at /
        for g in (("**/*.txt", "a/**", "*", "a/b/*") if tname == "plain" else ("**/g", "a/b/**")):
            out.append({"nodes": nodes, "follow": False, "min": -1, "max": -1, "glob": C.cps(g), "rooted": True, "rooted_variant": True,
                        "walk_from": index["root"], "base": "abs", "layers": [], "tree": tname, "skip_trace": True,
                        "desc": "rooted glob /?<abs>/%s over tree %s (first component a pattern)" % (g, tname)})
        # rooted through a repetition (</verif:1,2>/...): the glob has a root although its first token is a branch; the
        # walk starts at the root of the file system and cannot prune by component, so the harness confines it
        for g in (("**/*.txt", "a/**", "*") if tname == "plain" else ("**/g", "a/b/**")):
            out.append({"nodes": nodes, "follow": False, "min": -1, "max": -1, "glob": C.cps(g), "rooted": True, "rooted_rep": True, "confine": True,
                        "walk_from": index["root"], "base": "abs", "layers": [], "tree": tname, "skip_trace": True,
                        "desc": "rooted glob </first:1,2>/<rest of abs>/%s over tree %s (rooted through a repetition)" % (g, tname)})
        # (below) a base inside the tree, and prefixes with . and ..
        for g, base in (("**", "root/a"), ("*/*", "root/a"), ("b/**", "root/a"), ("./a/**", "root"), ("../root/a/**", "root"),
                        ("../b/**", "root/a"), ("a/../b/**", "root"), ("./**", "root"), ("../**", "root/a")):
            if base in index:
                out.append({"nodes": nodes, "follow": False, "min": -1, "max": -1, "glob": C.cps(g), "rooted": False,
                            "walk_from": index[base], "base": "abs", "layers": [], "tree": tname,
                            "desc": "glob %r over tree %s from %s" % (g, tname, base)})
    # names that are not valid UTF-8 (and names with a backslash or a new line): a component is matched through its
    # lossy conversion, it is never dropped; judged by the yielded set (the trace names paths by their lossy text)
    nodes, index = tree(TREES["bytes"])
    for g in ("*/*.txt", "a/*.txt", "a/*/*.txt", "*/f", "?dir/*", "a/caf?.txt", "a/x?/g.txt", "*", "a/*", "a/?\\?/*.txt"):
        out.append({"nodes": nodes, "follow": False, "min": -1, "max": -1, "glob": C.cps(g), "rooted": False,
                    "walk_from": index["root"], "base": "abs", "layers": [], "tree": "bytes", "skip_trace": True,
                    "desc": "glob %r over tree bytes (names that are not UTF-8)" % g})
    for i, h in enumerate(out):
        h["sid"] = first_sid + i
        h["origin"] = "library"
    return out


def lossy(t):
    """the text that to_string_lossy gives for a name of the scenario trees: every raw byte 0x80..0xFF (written as
    U+E080..U+E0FF in the tree specifications; here always a single invalid byte) becomes U+FFFD"""
    return "".join("\ufffd" if 0xE080 <= ord(c) <= 0xE0FF else c for c in t)


PRODUCT_GLOBS = {
    "plain": [None, None, "**", "*", "a/**", "**/*.txt", "a/b/*", "{a,b}/**", "**/{b,.h}/**", "a*/**", "?/b/*", "*/*", "**/b/*", "<*/>*.txt", "a/<b/:0,1>*"],
    "deep": [None, None, "**", "a/**/{f,g,h}", "**/c/*", "a/b/**", "**/g", "{a,b}/c/*", "**/b/**", "a/*/g", "*/c/**", "b/**/h", "<*/:1,2>g"],
    "links": [None, None, "**", "a/f*", "*/g", "b/*", "**/g", "a/*", "?/t*", "a/tob/**", "**/up/**"],
    "faults": [None, None, "**", "*/*", "**/g", "z/**", "{a,z}/**", "l*/**", "*"],
}
PRODUCT_NEGS = {
    "plain": ["**/b/**", "b/**", "**/*.txt", "a/b", "**/{b}", "{a/**,**/y.txt}", "{**/b/**,**/b}", "{a/**,a}", "a/**", "**/a/*", "?/**", "<*/>", "**/d", ".h"],
    "deep": ["**/b/**", "b/**", "**/c/**", "**/{f,g}", "{**/c,**/c/**,**/g}", "a/b/**", "**/b", "{a/**,a}", "a/**", "**/a/*", "?/**", "<*/>", "**/g"],
    "links": ["**/tob/**", "a/**", "**/g", "b/**", "{a/up,a/up/**}", "**/up/**", "*/f", "dangling", "**/b/**", "lf"],
    "faults": ["**/f", "z/**", "**/locked/**", "a/**", "**/deep", "dangling", "locked", "{z,z/**}", "?/**"],
}
PRODUCT_DEPTHS = [(-1, -1, None), (-1, -1, None), (1, -1, "from_min"), (-1, 2, "from_max"), (1, 2, "from_depths"), (2, 3, "from_depths"), (1, 3, "bounded"),
                  (2, -1, "bounded"), (-1, 1, "bounded"), (2, 2, "from_depths")]


def product_scenarios(rnd, count, first_sid, trees=("plain", "deep", "links")):
    """a seeded sample of the PRODUCT of the dimensions that the hand-written libraries vary one or two at a time:
    tree x (path walk | glob) x link behaviour x depth behaviour (through the public constructors) x a stack of one
    to three layers, each an entry filter with a random verdict table (tree / file discards on random entries) or a
    negation (text or compiled).  Every trace is validated against Walk.tla with all its invariants."""
    out = []
    for k in range(count):
        tname = trees[k % len(trees)]
        nodes, index = tree(TREES[tname])
        h0 = {"nodes": nodes, "walk_from": index["root"]}
        paths = sorted(node_paths(dict(h0, follow=False)))
        g = rnd.choice(PRODUCT_GLOBS[tname])
        follow = tname in ("links", "faults") and rnd.random() < 0.6
        if g is not None and follow and not g.startswith("*"):
            follow = rnd.random() < 0.5
        if g is not None and g.startswith("a/tob"):
            follow = True      # a prefix that ends at a link: the walk starts at the link (clause U7)
        mn, mx, ctor = rnd.choice(PRODUCT_DEPTHS)
        layers = []
        for _ in range(rnd.choice((1, 1, 2, 2, 3))):
            if rnd.random() < 0.5:
                table = {}
                for q in rnd.sample(paths, min(len(paths), rnd.choice((1, 2, 3)))):
                    if q != "root":
                        table[q] = rnd.choice(("tree", "tree", "file"))
                layers.append({"kind": "filter", "verdicts": table})
            else:
                layers.append({"kind": "not", "patterns": [C.cps(rnd.choice(PRODUCT_NEGS[tname]))], "mode": rnd.choice(("text", "compiled"))})
        h = {"sid": first_sid + len(out), "nodes": nodes, "follow": follow, "min": mn, "max": mx, "rooted": False, "walk_from": index["root"],
             "base": rnd.choice(("abs", "abs", "trailing")), "tree": tname, "origin": "product", "layers": layers,
             "desc": "product: %s over tree %s (links read as %s), depth %s..%s%s, layers %s" % (
                 "path walk" if g is None else "glob %r" % g, tname, "targets" if follow else "files", mn if mn > 0 else 0, mx if mx >= 0 else "inf",
                 " (%s)" % ctor if ctor else "",
                 [("filter %s" % l["verdicts"]) if l["kind"] == "filter" else "not(%r as %s)" % (C.text(l["patterns"][0]), l["mode"]) for l in layers])}
        if ctor:
            h["ctor"] = ctor
        if g is not None:
            h["glob"] = C.cps(g)
        out.append(h)
    return out


def family_walk_scenarios(tier, first_sid, rnd, texts):
    """glob walks over the tree ab3 for (a seeded sample of) the built members of expression families: the yielded
    set of each is compared with the real is_match on every path of the tree (no trace validation)"""
    pre = glob_prefixes(sorted(texts))
    # (a rooted glob walks the real file system from its root: never)
    import re
    built = [g for g in sorted(texts) if g and pre.get(g) is not None and not re.match(r"^[{<(?i)-]*/", g)
             and not any(c[0] == "root" for c in pre[g])]
    rnd.shuffle(built)
    # globs with an invariant prefix first (the walk starts beneath the given directory: where it starts decides
    # what can be found), then globs with separators, then the others
    prefixed = [g for g in built if pre[g]]
    deep = [g for g in built if "/" in g and not pre[g]]
    flat = [g for g in built if "/" not in g and not pre[g]]
    n = 1500 if tier == "quick" else 15000
    pick = prefixed[: 2 * n] + deep[: n * 4 // 5] + flat[: n // 5]
    nodes, index = tree(TREES["ab3"])
    out = []
    for g in pick:
        out.append({"sid": first_sid + len(out), "nodes": nodes, "follow": False, "min": -1, "max": -1, "glob": C.cps(g), "rooted": False,
                    "walk_from": index["root"], "base": "abs", "layers": [], "tree": "ab3", "origin": "family", "skip_trace": True,
                    "desc": "glob %r over tree ab3" % g})
    return out


def prepare_glob_scenarios(scenarios):
    """fills anchor / pivot / skip_trace of glob scenarios from the real partition of their globs"""
    texts = sorted({C.text(h["glob"]) for h in scenarios if h.get("glob") is not None})
    pre = glob_prefixes(texts)
    pivots = {}
    for h in scenarios:
        if h.get("glob") is None:
            continue
        g = C.text(h["glob"])
        comps = pre[g]
        if comps is None:
            raise C.ToolError("library glob %r does not build" % g)
        paths = node_paths(dict(h, walk_from=1))
        base_text = [t for t, pos in paths.items() if pos[-1] == h["walk_from"] and len(pos) == len(t.split("/"))][0]
        h["_base_text"] = base_text
        anchor_text, plain = locate(h, None, base_text, comps)
        h["_plain_prefix"] = plain
        h["_anchor_text"] = anchor_text
        h["_post"] = pre[("post", g)]
        h["_prefix_bytes"] = list(pre[("prefix", g)].encode("utf-8"))
        ncomps = len([c for c in comps if c[0] != "root"])
        if h.get("rooted"):
            # pivot = every component of the absolute prefix; the model only sees the sub-tree at the anchor
            pivots[h["sid"]] = 0
        else:
            pivots[h["sid"]] = ncomps
        if not plain or anchor_text not in paths:
            h["skip_trace"] = True
        else:
            h["anchor"] = paths[anchor_text][-1]
            if len(paths[anchor_text]) != len(anchor_text.split("/")):
                h["skip_trace"] = True
    return pivots
