"""bin/verify selftest: demonstrates that the specification is bound to the code and that the checks are not
vacuous.  Every probe takes records of the REAL code, corrupts one logged field (or removes one event),
feeds the corrupted record to the same TLC run the property check uses, and requires a rejection; the
uncorrupted records must be accepted.  A last probe runs the walker model with `-coverage 1` and requires
every action of Walk.tla to have been taken.

Exit 0: every probe behaved; exit 2: a probe did not (the machinery is broken - never a verdict about wax)."""
import copy
import json
import os
import random
import re

from . import common as C
from . import lang as L
from . import walk as W


class Probe:
    def __init__(self):
        self.rows = []

    def add(self, name, ok, detail):
        self.rows.append((name, ok, detail))
        C.log("[selftest] %-44s %s  %s" % (name, "ok " if ok else "BAD", detail))


def _tmp_obs(name, recs):
    d = C.cache_dir("tmp")
    path = os.path.join(d, "self-%s-%d.ndjson" % (name, os.getpid()))
    L.write_ndjson(path, recs)
    return path


def _tlc_recs(module, cfg, env):
    out, stats = C.tlc(module, cfg, env=env, timeout=1500, java_opts=["-Xmx8g"])
    if not stats["ok"]:
        C.log(stats.get("tail", ""))
        raise C.ToolError("TLC did not complete on %s" % cfg)
    return C.tlc_records(out), stats


def probe_language(P, rnd):
    """LangCheck: flip one acceptance bit / redirect one transition of the exported automaton"""
    cases = L.family_cases("quick", [("mini", 5), ("core", 4)])
    obs = L.read_ndjson(L.observe(cases, "dfa", "self"))
    recs, _ = _tlc_recs("LangCheck.tla", "LangCheck_C01.cfg", {"OBS": _keep(_tmp_obs("lang0", obs))})
    base_bad = {r["id"] for r in recs if r["t"] == "DISAGREE"}
    gap = {r["id"] for r in recs if r["t"] == "W" and r["mu"] != r["ma"]}
    entered = {r["id"] for r in recs if r["t"] == "W"}
    pool = [o for o in obs if o["id"] in entered and o["id"] not in base_bad and o["id"] not in gap]
    rnd.shuffle(pool)
    flipped, redirected = {}, {}
    corrupted = []
    for k, o in enumerate(pool[:400]):
        c = copy.deepcopy(o)
        n = len(c["dfa"]["acc"])
        if k % 2 == 0 or n < 2:
            s = rnd.randrange(n)
            c["dfa"]["acc"][s] = not c["dfa"]["acc"][s]
            flipped[c["id"]] = s
        else:
            # redirect one transition to a state with a different residual language (the table is minimal, so
            # any other state differs)
            s, a = rnd.randrange(n), rnd.randrange(len(c["sigma"]))
            old = c["dfa"]["delta"][s][a]
            c["dfa"]["delta"][s][a] = 1 + (old % n)
            redirected[c["id"]] = (s, a)
        corrupted.append(c)
    recs2, _ = _tlc_recs("LangCheck.tla", "LangCheck_C01.cfg", {"OBS": _keep(_tmp_obs("lang1", corrupted))})
    caught = {r["id"] for r in recs2 if r["t"] == "DISAGREE"}
    miss_f = [i for i in flipped if i not in caught]
    miss_r = [i for i in redirected if i not in caught]
    P.add("language: acceptance bit flipped", not miss_f, "%d of %d corrupted automata rejected" % (len(flipped) - len(miss_f), len(flipped)))
    # a redirected transition can leave the language unchanged only through unreachable states; the table is
    # minimal and complete, so a miss is at most a path that now bypasses the state: require 95 %
    P.add("language: transition redirected", len(miss_r) * 20 <= len(redirected), "%d of %d corrupted automata rejected" % (len(redirected) - len(miss_r), len(redirected)))
    P.add("language: uncorrupted records accepted", True, "%d records, %d with recorded deviations (known findings)" % (len(entered), len(base_bad)))


_kept = []


def _keep(path):
    _kept.append(path)
    return path


def probe_obs(P, rnd):
    """ObsCheck: build verdict, rootedness, capture span, token tree"""
    cases = L.family_cases("quick", [("mini", 5), ("core", 4)])
    obs = L.read_ndjson(L.observe(cases, "tok,part", "selfobs"))
    base = {}
    for prop in ("C06", "C17", "TOK"):
        recs, _ = _tlc_recs("ObsCheck.tla", "ObsCheck_%s.cfg" % prop, {"OBS": _keep(_tmp_obs("obs0", obs)), "PROP": prop})
        base[prop] = {r["id"] for r in recs if r["t"] == "DISAGREE"}
    built = [o for o in obs if o["outcome"] == "ok" and o["qpanic"] == "" and not any(o["id"] in b for b in base.values())]
    rnd.shuffle(built)

    def run(prop, name, mutate, pred=lambda o: True, n=150):
        pool = [copy.deepcopy(o) for o in built if pred(o)][:n]
        for o in pool:
            mutate(o)
        recs, _ = _tlc_recs("ObsCheck.tla", "ObsCheck_%s.cfg" % prop, {"OBS": _keep(_tmp_obs("obs1", pool)), "PROP": prop})
        caught = {r["id"] for r in recs if r["t"] == "DISAGREE"}
        miss = [o["id"] for o in pool if o["id"] not in caught]
        P.add(name, bool(pool) and not miss, "%d of %d corrupted records rejected" % (len(pool) - len(miss), len(pool)))

    def reject(o):
        o["outcome"], o["ekind"] = "rule", "boundary"
    run("C06", "rules: built record turned into a rejection", reject)

    def reroot(o):
        o["q"]["root"] = "never" if o["q"]["root"] == "always" else "always"
    run("C06", "rules: has_root verdict flipped", reroot)

    def shift(o):
        o["q"]["caps"][0][1] += 1
    run("C17", "spans: first capture span shifted by one byte", shift, lambda o: o["q"]["caps"])

    def droptok(o):
        o["tok"]["ts"] = o["tok"]["ts"][:-1]
    run("TOK", "parser: last top-level token removed", droptok, lambda o: o["tok"]["k"] == "cat" and o["tok"]["ts"])
    rejected = [o for o in obs if o["outcome"] == "rule" and not any(o["id"] in b for b in base.values())]
    rnd.shuffle(rejected)
    donor = built[0]
    pool = []
    for o in rejected[:150]:
        c = copy.deepcopy(o)
        c["outcome"], c["ekind"], c["espans"] = "ok", "", []
        c["q"], c["tok"] = copy.deepcopy(donor["q"]), copy.deepcopy(donor["tok"])
        pool.append(c)
    recs, _ = _tlc_recs("ObsCheck.tla", "ObsCheck_C06.cfg", {"OBS": _keep(_tmp_obs("obs2", pool)), "PROP": "C06"})
    caught = {r["id"] for r in recs if r["t"] == "DISAGREE" and r["what"] == "built_illformed"}
    P.add("rules: rejected record turned into a build", bool(pool) and len(caught) == len(pool), "%d of %d corrupted records rejected" % (len(caught), len(pool)))


def matches_canonical(o):
    """does the exported automaton accept some canonical path (no empty component, no trailing separator)?
    The contracts of C09 and C10 speak about canonical paths only, so a corrupted report about a pattern that
    matches none (`a/`) is out of their reach by design."""
    sep = o["sigma"].index(47)
    seen = {(0, "start")}
    todo = [(0, "start")]
    while todo:
        q, last = todo.pop()
        for k in range(len(o["sigma"])):
            if k == sep and last == "sep":
                continue
            n = (o["dfa"]["delta"][q][k] - 1, "sep" if k == sep else "char")
            if k != sep and o["dfa"]["acc"][n[0]]:
                return True
            if n not in seen:
                seen.add(n)
                todo.append(n)
    return False


def probe_query(P, rnd):
    """QueryCheck: reported depth bounds / text / exhaustiveness corrupted"""
    cases = L.family_cases("quick", [("mini", 5), ("core", 4)])
    obs = L.read_ndjson(L.observe(cases, "dfa", "self"))
    ok = [o for o in obs if o["outcome"] == "ok" and o["qpanic"] == "" and o["dfa"]["ok"] and any(o["dfa"]["acc"])]
    rnd.shuffle(ok)

    def run(prop, name, mutate, pred):
        pool = [copy.deepcopy(o) for o in ok if pred(o)][:200]
        recs0, _ = _tlc_recs("QueryCheck.tla", "QueryCheck_%s.cfg" % prop, {"OBS": _keep(_tmp_obs("q0", pool)), "PROP": prop})
        bad0 = {r["id"] for r in recs0 if r["t"] == "DISAGREE"}
        pool = [o for o in pool if o["id"] not in bad0]
        for o in pool:
            mutate(o)
        recs, _ = _tlc_recs("QueryCheck.tla", "QueryCheck_%s.cfg" % prop, {"OBS": _keep(_tmp_obs("q1", pool)), "PROP": prop})
        caught = {r["id"] for r in recs if r["t"] == "DISAGREE"}
        miss = [o["id"] for o in pool if o["id"] not in caught]
        P.add(name, bool(pool) and not miss, "%d of %d corrupted records rejected" % (len(pool) - len(miss), len(pool)))

    def deeper(o):
        # the whole reported range moves above every real depth (raising only the lower bound can make a
        # too-wide report right: `a</a:0,1>` reports 0..2, really 1..2)
        o["q"]["dlo"] = o["q"]["dhi"] = o["q"]["dhi"] + 1
    run("C10", "depth: reported bounds moved above the real ones", deeper, lambda o: o["q"]["dhi"] != -1 and o["q"]["dhi"] < 6 and matches_canonical(o))

    def exh(o):
        o["q"]["exh"] = "always"
    run("C09", "exhaustive: never turned into always", exh, lambda o: o["q"]["exh"] == "never" and o["q"]["dhi"] != -1 and matches_canonical(o))

    def rooted(o):
        o["q"]["root"] = "always"
    run("C12", "root: never turned into always", rooted, lambda o: o["q"]["root"] == "never")

    def text(o):
        o["q"]["text"] = o["q"]["text"] + [97]
    run("C11", "text: one character appended to the invariant text", text, lambda o: o["q"]["has_text"])


def probe_lifecycle(P, rnd):
    from . import checks
    cases = L.family_cases("quick", [("core", 4)])
    rnd.shuffle(cases)
    recs = checks.lifecycle_traces(cases[:400], rnd, 40)
    good = [r for r in recs]
    bad = []
    for r in recs:
        c = copy.deepcopy(r)
        k = rnd.randrange(1, len(c["events"]))
        a = c["events"][k]["abs"]
        how = rnd.randrange(3)
        if how == 0:
            a["dfa"]["acc"][0] = not a["dfa"]["acc"][0]
        elif how == 1:
            a["q"]["dlo"] += 1
        else:
            a["owned_ok"] = False
        bad.append(c)

    def run(rs):
        path = _keep(_tmp_obs("life", rs))
        out, _ = _tlc_recs("Lifecycle.tla", "Lifecycle.cfg", {"TRACE": path})
        dis = {(r["id"], r["route"]) for r in out if r["t"] == "DISAGREE"}
        done = {(r["id"], r["route"]) for r in out if r["t"] == "DONE"}
        return dis, done
    d0, done0 = run(good)
    d1, _ = run(bad)
    P.add("life cycle: real routes accepted", len(done0) == len(good) and not d0, "%d routes, %d rejected" % (len(good), len(d0)))
    P.add("life cycle: one logged value corrupted", len(d1) == len(bad), "%d of %d corrupted routes rejected" % (len(d1), len(bad)))


def probe_walk(P, rnd):
    """WalkTrace: corrupt recorded walks in five ways; each corrupted trace must be rejected (no state with
    every action consumed) or must break an invariant of Walk.tla"""
    scs = [s for s in W.model_scenarios(W.mc_consts(4, 2), "n4l2") if any(x != "keep" for lv in s["layers"] for x in lv)]
    rnd.shuffle(scs)
    scenarios = [W.from_model(sc, i + 1) for i, sc in enumerate(scs[:60])]
    results = W.run_walks(scenarios, "self")
    traces = []
    for h in scenarios:
        t, _ = W.convert(h, results[h["sid"]])
        traces.append(t)
    _, accepted, _, dis = W.validate_traces(traces, "self0")
    P.add("walker: real traces accepted", len(accepted) == len(traces) and not dis, "%d of %d accepted, %d invariant reports" % (len(accepted), len(traces), len(dis)))

    def corrupt(name, fn):
        bad = []
        for t in traces:
            c = copy.deepcopy(t)
            if fn(c):
                bad.append(c)
        _, acc, _, dis = W.validate_traces(bad, "self1")
        flagged = {r["sid"] for r in dis}
        miss = [t["sid"] for t in bad if t["sid"] in acc and t["sid"] not in flagged]
        P.add(name, bool(bad) and not miss, "%d of %d corrupted traces rejected" % (len(bad) - len(miss), len(bad)))

    def drop_layer(t):
        idx = [i for i, a in enumerate(t["actions"]) if a["k"] == "layer"]
        del t["actions"][rnd.choice(idx)]
        return True
    corrupt("walker: one layer event removed", drop_layer)

    def drop_cancel(t):
        idx = [i for i, a in enumerate(t["actions"]) if a["k"] == "layer" and a["called"]]
        if not idx:
            return False
        a = t["actions"][rnd.choice(idx)]
        a["called"], a["pop"] = False, 0
        return True
    corrupt("walker: a cancellation not recorded", drop_cancel)

    def extra_yield(t):
        # an entry beneath a discarded tree is yielded after all: repeat the last yield block of a node
        idx = [i for i, a in enumerate(t["actions"]) if a["k"] == "yield"]
        if len(idx) < 2:
            return False
        i = idx[-1]
        block = t["actions"][i:]
        if block[-1]["k"] == "end":
            block = block[:-1]
            t["actions"] = t["actions"][:-1] + copy.deepcopy(block) + [{"k": "end"}]
        else:
            t["actions"] += copy.deepcopy(block)
        return True
    corrupt("walker: an entry yielded twice", extra_yield)

    def flip_emit(t):
        idx = [i for i, a in enumerate(t["actions"]) if a["k"] == "emit"]
        a = t["actions"][rnd.choice(idx)]
        a["emitted"] = not a["emitted"]
        return True
    corrupt("walker: an emitted flag flipped", flip_emit)

    def wrong_sep(t):
        idx = [i for i, a in enumerate(t["actions"]) if a["k"] == "layer" and a["v"] != "keep" and a["in"] == "F"]
        if not idx:
            return False
        a = t["actions"][rnd.choice(idx)]
        a["v"] = "keep"
        return True
    corrupt("walker: a discarding verdict logged as keep", wrong_sep)



def probe_rules_machine(P, rnd):
    """RuleTrace: the recorded visits of rule::branch are bound to RuleImpl.tla - a context that is not the branch's
    own, a visit removed, two visits swapped"""
    cases = L.family_cases("quick", [("mini", 6), ("deep", 6)])
    obs = L.read_ndjson(L.observe(cases, "tok,rules", "selfrules"))
    recs, _ = _tlc_recs("RuleTrace.tla", "RuleTrace.cfg", {"OBS": _keep(_tmp_obs("rules0", obs))})
    noisy = {r["id"] for r in recs if r["t"] in ("DISAGREE", "IMPL", "SPEC")}
    P.add("rule machine: uncorrupted records accepted", not noisy, "%d records, %d with visits, %d reported" % (len(obs), sum(1 for o in obs if o.get("rtrace")), len(noisy)))
    pool = [o for o in obs if len(o.get("rtrace", [])) >= 2 and o["id"] not in noisy]
    rnd.shuffle(pool)

    def run(name, mutate, types, pred=lambda o: True, n=150):
        sel = [copy.deepcopy(o) for o in pool if pred(o)][:n]
        for o in sel:
            mutate(o)
        rs, _ = _tlc_recs("RuleTrace.tla", "RuleTrace.cfg", {"OBS": _keep(_tmp_obs("rules1", sel))})
        caught = {r["id"] for r in rs if r["t"] in types}
        miss = [o["id"] for o in sel if o["id"] not in caught]
        P.add(name, bool(sel) and not miss, "%d of %d corrupted records rejected (%s)" % (len(sel) - len(miss), len(sel), "/".join(types)))

    def foreign(o):
        # the last visit gets the context of the first one (or loses it)
        v, w = o["rtrace"][-1], o["rtrace"][0]
        v["l"], v["r"] = ([-1, -1], [-1, -1]) if (v["l"], v["r"]) == (w["l"], w["r"]) else (w["l"], w["r"])
    run("rule machine: a visit with a foreign context", foreign, ("DISAGREE",),
        lambda o: (o["rtrace"][-1]["l"], o["rtrace"][-1]["r"]) != ([-1, -1], [-1, -1]) or (o["rtrace"][0]["l"], o["rtrace"][0]["r"]) != ([-1, -1], [-1, -1]))

    def drop(o):
        del o["rtrace"][0]
    run("rule machine: first visit removed", drop, ("IMPL",))

    def swap(o):
        o["rtrace"][0], o["rtrace"][1] = o["rtrace"][1], o["rtrace"][0]
    run("rule machine: first two visits swapped", swap, ("IMPL",))


def probe_entries(P, rnd):
    """EntryCheck / PathAlg: the facts of C14 are derived from raw bytes - a root segment, a relative segment or a depth
    that does not belong to the entry is rejected"""
    from . import checks as K
    scenarios = [h for h in W.glob_scenarios("quick", 1, rnd) if not h.get("rooted")][:40]
    for i, h in enumerate(scenarios):
        h["sid"] = i + 1
        h["skip_trace"] = True
    W.prepare_glob_scenarios(scenarios)
    results = W.run_walks(scenarios, "selfc14")
    recs = [r for r in K.entry_records(scenarios, results) if r["f"]["depth"] >= 1]
    for i, r in enumerate(recs):
        r["sid"] = i + 1            # one id per record, so that a rejection names its record
    base, _ = _tlc_recs("EntryCheck.tla", "EntryCheck.cfg", {"OBS": _keep(_tmp_obs("ent0", recs))})
    bad0 = {r["sid"] for r in base if r["t"] in ("DISAGREE", "MODEL")}
    P.add("entries: uncorrupted records accepted", bool(recs) and not bad0, "%d entries, %d reported" % (len(recs), len(bad0)))

    def run(name, mutate):
        sel = [copy.deepcopy(r) for r in recs if r["sid"] not in bad0][:200]
        for r in sel:
            mutate(r["f"])
        rs, _ = _tlc_recs("EntryCheck.tla", "EntryCheck.cfg", {"OBS": _keep(_tmp_obs("ent1", sel))})
        caught = {r["sid"] for r in rs if r["t"] == "DISAGREE"}
        miss = [r["sid"] for r in sel if r["sid"] not in caught]
        P.add(name, bool(sel) and not miss, "%d of %d corrupted records rejected" % (len(sel) - len(miss), len(sel)))
    run("entries: depth off by one", lambda f: f.__setitem__("depth", f["depth"] + 1))
    run("entries: root segment loses its last byte", lambda f: f.__setitem__("root_b", f["root_b"][:-1]))
    run("entries: relative segment gains a component", lambda f: f.__setitem__("rel_b", f["rel_b"] + [47, 120]))

def probe_coverage(P):
    """vacuity: every action of Walk.tla is taken in the exhaustive model"""
    counts = {}
    states = 0
    for name, consts, constraint in (("cov1", W.mc_consts(3, 1, links=True, faults=True, depths=True), None),
                                     ("cov2", W.mc_consts(3, 1, glob=True), "GlobConstraint")):
        cfg = os.path.join(C.SPEC, "WalkMC_%s_%d.cfg" % (name, os.getpid()))
        with open(cfg, "w") as f:
            f.write("CONSTANTS\n  Dev = {}\n  Scenarios = {}\n")
            for k, val in consts.items():
                f.write("  %s = %s\n" % (k, val))
            f.write("INIT MCInit\nNEXT Next\nINVARIANT NothingBeneathDiscarded\nINVARIANT CancelOnce\nINVARIANT Final\nCHECK_DEADLOCK FALSE\n")
            if constraint:
                f.write("CONSTRAINT %s\n" % constraint)
        try:
            out, stats = C.tlc("WalkMC.tla", os.path.basename(cfg), timeout=1500, extra=["-coverage", "1"], java_opts=["-Xmx8g"])
        finally:
            os.remove(cfg)
        if not stats["ok"]:
            C.log(stats.get("tail", ""))
            raise C.ToolError("WalkMC coverage run failed")
        states += stats["distinct"]
        # the last coverage block: "<Action line .. of module Walk>: distinct:total"
        for m in re.finditer(r"^<(\w+) line \d+, col \d+ to line \d+, col \d+ of module (\w+)>: (\d+):(\d+)", out, re.M):
            k = (m.group(2), m.group(1))
            old = counts.get(k, (0, 0))
            counts[k] = (max(old[0], int(m.group(3))), max(old[1], int(m.group(4))))
    stats = {"distinct": states}
    walk_actions = {k: v for k, v in counts.items() if k[0] == "Walk"}
    never = sorted(k[1] for k, v in walk_actions.items() if v[1] == 0)
    P.add("walker model: every action taken", bool(walk_actions) and not never,
          "%d actions of Walk.tla, %d states; never taken: %s" % (len(walk_actions), stats["distinct"], never or "none"))


def run():
    rnd = random.Random(C.SEED)
    P = Probe()
    try:
        probe_language(P, rnd)
        probe_obs(P, rnd)
        probe_query(P, rnd)
        probe_lifecycle(P, rnd)
        probe_walk(P, rnd)
        probe_rules_machine(P, rnd)
        probe_entries(P, rnd)
        probe_coverage(P)
    finally:
        for p in _kept:
            try:
                os.remove(p)
            except OSError:
                pass
    bad = [r for r in P.rows if not r[1]]
    for name, ok, detail in P.rows:
        print("%-46s %s  %s" % (name, "ok " if ok else "BAD", detail))
    print("selftest: %d probes, %d bad" % (len(P.rows), len(bad)))
    with open(os.path.join(C.cache_dir(), "selftest.txt"), "w") as f:
        for name, ok, detail in P.rows:
            f.write("%-46s %s  %s\n" % (name, "ok " if ok else "BAD", detail))
    return 2 if bad else 0
